"""Shared frame contracts for C02 (hyper-parameters / caller data never altered, also when fit fails)
and C03 (a fitted model depends only on parameters, the last training set and seeds).

A FrameFit contract executes the real `fit` with `ext_may_raise`: every call into a dependency or into an
inner estimator forks one exceptional path.  The obligations are conditions on the final symbolic
state of EVERY exit path (normal or exceptional)."""
import z3
from pyvc.api import Contract
from pyvc.values import Obj, NdArr, Opaque, z, is_sym
from pyvc import models


class Stale(Opaque):
    """what an earlier fit left behind in a fitted attribute"""

    def __init__(self, attr):
        Opaque.__init__(self, z3.Const(models.fresh_name("stale_" + attr), models.Est), "stale")
        self.attr = attr


def identical(a, b):
    if a is b:
        return True
    if is_sym(a) and is_sym(b):
        return z3.eq(a, b)
    if isinstance(a, (str, int, bool)) and type(a) is type(b):
        return a == b
    from fractions import Fraction
    if isinstance(a, Fraction) and isinstance(b, Fraction):
        return a == b
    return False


def contains_stale(v, depth=0):
    if isinstance(v, Stale):
        return True
    if depth > 3:
        return False
    if isinstance(v, (list, tuple)):
        return any(contains_stale(x, depth + 1) for x in v)
    if isinstance(v, dict):
        return any(contains_stale(x, depth + 1) for x in v.values())
    if isinstance(v, Obj) and depth < 2:
        return any(contains_stale(x, depth + 1) for k, x in v.fields.items() if not k.startswith("$") or k in ("$fit_X", "$fit_y", "$fit_w"))
    return False


class FrameFit(Contract):
    ext_may_raise = True
    params = []          # constructor parameters (hyper-parameters)
    fitted = []          # fitted attributes that a previous fit left and this fit must overwrite (C03)
    private_caches = []  # private attributes that must not survive a refit (C03)
    data = ["X", "y", "sample_weight"]
    frame_only = False   # C02: only the frame; C03: + overwrites / rng provenance
    seeded_means_no_global = False
    max_paths = 6000

    scan_caches = False  # C03 (set by contracts/C03.py::refit): attributes that methods other than __init__ / fit assign (read from the class source on every run) count as caches

    def caches_of(self, s):
        """declared private caches + every attribute `self.<name> = ...` is assigned to in a method of the instance's class other than __init__
        and fit (memo tables, indexes built on first use): derived from the real source, so a cache added later is covered without a contract edit"""
        import ast
        out = list(self.private_caches)
        cls = getattr(s, "cls", None)
        if self.scan_caches and cls is not None and hasattr(cls, "methods"):
            for mname, m in sorted(cls.methods.items()):
                if mname in ("__init__", "fit", "set_params", "__setstate__"):
                    continue
                for nd in ast.walk(m.node):
                    tgts = nd.targets if isinstance(nd, ast.Assign) else ([nd.target] if isinstance(nd, (ast.AugAssign, ast.AnnAssign)) else [])
                    for t in tgts:
                        for x in (t.elts if isinstance(t, (ast.Tuple, ast.List)) else [t]):
                            if isinstance(x, ast.Attribute) and isinstance(x.value, ast.Name) and x.value.id == "self" \
                                    and x.attr not in self.params and x.attr not in self.fitted and x.attr not in out:
                                out.append(x.attr)
        return out

    def prime(self, E, s):
        """C03: the instance has been fitted before on another training set"""
        for attr in self.fitted + self.caches_of(s):
            s.fields[attr] = Stale(attr)

    def old(self, E, a):
        s = a["self"]
        snap = {p: s.fields.get(p) for p in self.params}
        ev = {p: len(v.events) for p, v in snap.items() if isinstance(v, Obj)}
        writes = {d: a[d].cell.writes for d in self.data if isinstance(a.get(d), NdArr)}
        return dict(params=snap, events=ev, writes=writes, tl=len(E.trace), fields={k: v for k, v in s.fields.items() if not k.startswith("$")})

    def signals(self, E, a, exc, old):
        return {}      # fit may fail (invalid data, inner estimator failing): the frame below is what is checked

    def at_exit(self, E, a, old, exc):
        s = a["self"]
        out = {}
        for p, v in old["params"].items():
            out["hyper_parameter_%s_unchanged" % p] = z3.BoolVal(p in s.fields and bool(identical(s.fields[p], v)))
            if isinstance(v, Obj):
                new_ev = v.events[old["events"][p]:]
                out["no_set_params_on_%s" % p] = z3.BoolVal(not any(e == ("call", "set_params") or e[0] == "set" for e in new_ev))
        for d, w in old["writes"].items():
            out["caller_%s_not_written" % d] = z3.BoolVal(a[d].cell.writes == w)
        if not self.frame_only:
            ent = [t for t in E.trace[old["tl"]:] if t.get("rng") == "Entropy"]
            out["no_unseeded_generator"] = z3.BoolVal(not ent)
            if exc is None:
                for attr in self.fitted:
                    out["fitted_attribute_%s_overwritten" % attr] = z3.BoolVal(attr in s.fields and not contains_stale(s.fields[attr]))
                for attr in self.caches_of(s):
                    out["cache_%s_does_not_survive_refit" % attr] = z3.BoolVal(not contains_stale(s.fields.get(attr)))
        return out

    def at_cut(self, E, a, old):
        # a write cannot be undone: also checked where a path ends inside a loop (the arbitrary iteration forgets which arrays the loop-carried
        # variables alias - e.g. weights that start as the caller's sample_weight and are updated "in place" by the first iteration)
        return {"caller_%s_not_written" % d: z3.BoolVal(a[d].cell.writes == w) for d, w in old["writes"].items()}

    def ensures(self, E, a, res, old):
        return {"returns_self": z3.BoolVal(res is a["self"])}

    # vacuity guard: a successful fit must change the instance (a fitted attribute appears or is replaced); the claim that it does not must fail
    canaries = {"a_successful_fit_leaves_the_instance_as_it_was": lambda E, a, res, old: z3.BoolVal(
        {k: v for k, v in a["self"].fields.items() if not k.startswith("$")}.keys() == old["fields"].keys()
        and all(a["self"].fields[k] is v for k, v in old["fields"].items()))}


# ----------------------------------------------------------------------------------------------------------------------
# frame of a QUERY (predict / transform / score ...): the estimator has exactly the attributes it had, each the same object.
# A query that leaves anything behind (a cache, a memo, a "last input") makes later answers depend on the history of calls -
# which the properties quantify over - and a refit cannot know it has to clear it.
def fields_of(obj):
    return {k: v for k, v in obj.fields.items() if not k.startswith("$")}


def same_fields(obj, before):
    now = fields_of(obj)
    return z3.BoolVal(set(now) == set(before) and all(now[k] is before[k] or identical(now[k], before[k]) for k in now))


def query_frame(*names):
    """class decorator (below @contract): adds `<name>_left_as_it_was_nothing_kept_between_calls` for the named Obj parameters"""
    def deco(cls):
        o_old, o_ens = cls.old, cls.ensures

        def old(self, E, a):
            r = o_old(self, E, a)
            snap = {n: fields_of(a[n]) for n in names if n in a and isinstance(a[n], Obj)}
            if r is None:
                r = {}
            if isinstance(r, dict):
                r = dict(r)
                r["$query_frame"] = snap
            return r

        def ensures(self, E, a, res, old, *args, **kw):
            out = o_ens(self, E, a, res, old, *args, **kw)
            if not kw and not args and isinstance(out, dict) and isinstance(old, dict):
                for n, before in old.get("$query_frame", {}).items():
                    out["%s_left_as_it_was_nothing_kept_between_calls" % n] = same_fields(a[n], before)
            return out
        cls.old, cls.ensures = old, ensures
        return cls
    return deco
