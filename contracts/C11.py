"""C11 - ExtendedFeatures generates exactly scikit-learn's polynomial features.

Per configuration (n_features, degree, interaction_only, include_bias, kind) the loops have constant trip counts
and are unrolled exactly; a generic input matrix (any number of rows, arbitrary real entries) is symbolic.
Oracle: itertools.combinations[_with_replacement] in the order scikit-learn's PolynomialFeatures uses."""
import itertools
import z3
from pyvc.api import Contract, contract
from contracts._frames import query_frame
from pyvc.values import Obj, NdArr, z

F = "mlinsights/mlmodel/extended_features.py"
NMAX, DMAX = 4, 4


def combos(n, degree, interaction_only, bias):
    comb = itertools.combinations if interaction_only else itertools.combinations_with_replacement
    start = 0 if bias else 1
    return list(itertools.chain.from_iterable(comb(range(n), i) for i in range(start, degree + 1)))


def name_of(c):
    if not c:
        return "1"
    parts = []
    for f in sorted(set(c)):
        k = c.count(f)
        parts.append("x%d^%d" % (f, k) if k > 1 else "x%d" % f)
    return " ".join(parts)


CONFIGS = [(n, d, io, b) for n in range(1, NMAX + 1) for d in range(1, DMAX + 1) for io in (False, True) for b in (False, True)]


def _self(E, cfg, kind, fitted):
    n, d, io, b = cfg
    f = dict(kind=kind, poly_degree=d, poly_interaction_only=io, poly_include_bias=b)
    if fitted:
        f["n_input_features_"] = n
        f["n_output_features_"] = len(combos(n, d, io, b))
    return E.new_obj(F + "::ExtendedFeatures", f)


@contract(F + "::ExtendedFeatures.fit", "C11")
class Fit(Contract):
    # a fresh instance, and an instance fitted before (same number of input columns, ANOTHER configuration since then - set_params between two
    # fits): whatever the earlier fit left, the attributes describe the current configuration afterwards
    variants = [(c, k, st) for c in CONFIGS for k in ("poly", "poly-slow") for st in (False, True)]

    def setup(self, E, v):
        cfg, kind, stale = v
        s = _self(E, cfg, kind, False)
        if stale:
            s.fields["n_input_features_"] = cfg[0]
            s.fields["n_output_features_"] = E.int("left_by_an_earlier_fit")
        return dict(self=s, X=E.nd("X", (E.size("m", 0), cfg[0])), _cfg=cfg)

    def ensures(self, E, a, res, old, drop_last=False):
        s = a.self
        exp = combos(*a._cfg)
        names = E.call_method(s, "get_feature_names_out", [], {}, None)
        want = [name_of(c) for c in exp]
        if drop_last:
            want = want[:-1]
        return {"returns_self": z3.BoolVal(res is s),
                "n_output_features_is_the_number_of_monomials": z3.BoolVal(s.fields.get("n_output_features_") == len(exp)),
                "names_denote_the_monomials_in_scikit_learn_order": z3.BoolVal(list(names) == want)}

    canaries = {"one_name_less": lambda E, a, res, old: Fit().ensures(E, a, res, old, drop_last=True)["names_denote_the_monomials_in_scikit_learn_order"]}


@contract(F + "::ExtendedFeatures.transform", "C11")
@query_frame("self")
class Transform(Contract):
    variants = [(c, k) for c in CONFIGS for k in ("poly", "poly-slow")]

    def setup(self, E, v):
        cfg, kind = v
        return dict(self=_self(E, cfg, kind, True), X=E.nd("X", (E.size("m", 0), cfg[0])), _cfg=cfg)

    def old(self, E, a):
        return dict(X=a.X.snapshot(), w=a.X.cell.writes)

    def ensures(self, E, a, res, old, swap=False):
        exp = combos(*a._cfg)
        ok = isinstance(res, NdArr) and res.ndim == 2
        out = {"matrix": z3.BoolVal(ok), "input_not_written": z3.BoolVal(a.X.cell.writes == old["w"])}
        if not ok:
            return out
        m = z(a.X.shape[0])
        out["one_column_per_monomial"] = z3.And(z(res.shape[0]) == m, z(res.shape[1]) == len(exp))
        order = list(range(len(exp)))
        if swap and len(order) > 1:
            order[-1], order[-2] = order[-2], order[-1]
        r = z3.Int("row")
        conj = []
        for col, k in enumerate(order):
            mono = z3.RealVal(1)
            for f in exp[k]:
                mono = mono * old["X"].get(r, f)
            conj.append(res.get(r, col) == mono)
        # one query per column (the same clause id): keeps every query small
        out["each_column_is_its_monomial_in_scikit_learn_order"] = [
            z3.ForAll([r], z3.Implies(z3.And(r >= 0, r < m), cj)) for cj in conj] or [z3.BoolVal(True)]
        return out

    canaries = {"last_two_columns_swapped": lambda E, a, res, old: z3.And(*Transform().ensures(E, a, res, old, swap=True).get(
        "each_column_is_its_monomial_in_scikit_learn_order", [z3.BoolVal(True)]))}


META = dict(
    level="other",
    explanation="contract-based deductive verification, complete per configuration: for each of the %d configurations (n_features<=%d, degree<=%d, "
                "interaction_only, include_bias, kind in {poly, poly-slow}) the real fit/transform/get_feature_names_out are executed symbolically with the loops "
                "unrolled exactly (constant trip counts) and every column is proved equal to its monomial for ALL real input matrices of any number of rows; "
                "the configuration space itself is bounded (not a proof for all (n, degree))" % (2 * len(CONFIGS), NMAX, DMAX),
    assumptions=["A1", "A2", "A6", "A7"],
    trusted=["numpy.multiply(A, B, out=C) multiplies column-wise with a one-column B broadcast; X[:, cols].prod(1) is the row product of the selected "
             "columns; itertools.combinations[_with_replacement] order = scikit-learn's PolynomialFeatures order (oracle)"],
    not_applicable=["the statement for all (n_features, degree) at once needs an induction over lexicographic enumerations: out of reach of the SMT back ends; "
                    "larger configurations are covered by the bounded stand-in against scikit-learn itself"],
)
