"""C19 - CategoriesToIntegers encodes each category by its own indicator and nothing else.

Bounded in the shape of the frame (2 categorical columns with 2 categories each, 1 row (2 consecutive categorical cells), 1 numeric column), complete in the
values: category names and cell contents are arbitrary (symbolic) strings, every cell may be missing / known / unseen."""
import itertools
import z3
from pyvc.api import Contract, contract
from contracts._frames import query_frame
from pyvc.values import Obj, NdArr, NaN, z, is_sym
from pyvc import models, pdmodel, dicts

F = "mlinsights/mlmodel/categories_to_integers.py"
COLS = ["a", "b"]
NCAT = {"a": 2, "b": 2}


def cats(E):
    """sorted distinct symbolic category names per column"""
    out = {}
    for c in COLS:
        ks = [E.str("cat_%s%d" % (c, i)) for i in range(NCAT[c])]
        for i in range(len(ks) - 1):
            E.assume(ks[i] < ks[i + 1])            # sorted, hence distinct
        for k in ks:
            E.assume(z3.Length(k) >= 1)
        out[c] = ks
    return out


def _self(E, skip_errors=False, single=False, remove=None, columns=None):
    return E.new_obj(F + "::CategoriesToIntegers", dict(columns=columns, remove=remove, skip_errors=skip_errors, single=single))


@contract(F + "::CategoriesToIntegers._build_schema", "C19")
class BuildSchema(Contract):
    variants = ["keep-all", "remove-first-of-a", "remove-last-of-b"]
    max_paths = 20000

    def setup(self, E, v):
        k = cats(E)
        remove = None
        rm = {}
        if v == "remove-first-of-a":
            remove = [z3.Concat(z3.StringVal("a="), k["a"][0])]
            rm = {("a", 0)}
        if v == "remove-last-of-b":
            remove = [z3.Concat(z3.StringVal("b="), k["b"][1])]
            rm = {("b", 1)}
        s = _self(E, remove=remove)
        d = {}
        for c in COLS:
            dc = {}
            for i, name in enumerate(k[c]):
                E.setitem(dc, name, i)
            d[c] = dc
        s.fields["_categories"] = d
        return dict(self=s, _cats=k, _rm=rm)

    def ensures(self, E, a, res, old, shift=0):
        ok = isinstance(res, tuple) and len(res) == 3
        out = {"triple": z3.BoolVal(ok)}
        if not ok:
            return out
        schema, position, new_vector = res
        kept = {c: [i for i in range(NCAT[c]) if (c, i) not in a._rm] for c in COLS}
        exp_names, exp_pos, last = [], {}, 0
        for c in COLS:
            exp_pos[c] = last
            for i in kept[c]:
                exp_names.append(z3.Concat(z3.StringVal(c + "="), a._cats[c][i]))
            last += len(kept[c])
        out["one_schema_entry_per_kept_category_named_column_equals_value"] = z3.And(
            z3.BoolVal(len(schema) == len(exp_names)), *[z(s_) == e for s_, e in zip(schema, exp_names)])
        out["blocks_are_contiguous_and_disjoint"] = z3.BoolVal(all(position.get(c) == exp_pos[c] + (shift if c == "b" else 0) for c in COLS))
        conj = []
        for c in COLS:
            vec = new_vector.get(c)
            if not isinstance(vec, dict) or len(vec) != len(kept[c]):
                conj.append(z3.BoolVal(False))
                continue
            for rank, i in enumerate(kept[c]):
                conj.append(z(E.getitem(vec, a._cats[c][i])) == rank)
        out["rank_of_each_kept_category_within_its_block"] = z3.And(*conj)
        return out

    canaries = {"second_block_shifted": lambda E, a, res, old: BuildSchema().ensures(E, a, res, old, shift=1).get(
        "blocks_are_contiguous_and_disjoint", z3.BoolVal(True))}


def schema_of(E, k):
    sch, pos, vec, last = [], {}, {}, 0
    for c in COLS:
        pos[c] = last
        d = {}
        for i, name in enumerate(k[c]):
            E.setitem(d, name, i)
            sch.append(z3.Concat(z3.StringVal(c + "="), name))
        vec[c] = d
        last += NCAT[c]
    return sch, pos, vec


CELL = ["str", "none", "nan"]


@contract(F + "::CategoriesToIntegers.transform", "C19")
@query_frame("self")
class Transform(Contract):
    """single=False: 2 rows x (a, b, numeric x); every categorical cell is an arbitrary string, None or NaN"""
    variants = [(se, cells) for se in (False, True) for cells in
                [("str", "str"), ("none", "str"), ("str", "nan"), ("nan", "none")]] + \
               [(False, ("str", "str"), "categorical-only"), (True, ("nan", "str"), "categorical-only")]     # frames without any numeric column
    NROWS = 1
    max_paths = 30000

    def setup(self, E, v):
        skip, kinds = v[0], v[1]
        only_cat = len(v) > 2
        k = cats(E)
        s = _self(E, skip_errors=skip, columns=list(COLS))
        s.fields["_fit_columns"] = list(COLS)
        s.fields["_schema"] = schema_of(E, k)
        mk = lambda kind, nm: E.str(nm) if kind == "str" else (None if kind == "none" else NaN)
        data = {"a": [mk(kinds[0], "a0")], "b": [mk(kinds[1], "b0")], "x": [E.real("x0")]}
        X = pdmodel.new_frame(["a", "b"] if only_cat else ["a", "x", "b"], {c: v_ for c, v_ in data.items() if not (only_cat and c == "x")})
        return dict(self=s, X=X, _cats=k, _data=data, _only_cat=only_cat)

    def _unseen(self, a):
        conds = []
        for c in COLS:
            for v in a._data[c]:
                if is_sym(v):
                    conds.append(z3.And(*[v != kk for kk in a._cats[c]]))
        return z3.Or(*conds) if conds else z3.BoolVal(False)

    def signals(self, E, a, exc, old):
        if exc == "ValueError" and not a.self.fields["skip_errors"]:
            return {"error_only_for_an_unseen_category": self._unseen(a)}
        return None

    def ensures(self, E, a, res, old, wrong=False):
        s = a.self
        out = {}
        if not s.fields["skip_errors"]:
            out["unseen_category_raises"] = z3.Not(self._unseen(a))
        if a._only_cat:
            # no numeric column: the result is the indicator block alone - a frame with the rows (the index) of the input
            ok = isinstance(res, Obj) and res.tag == "DataFrame" and res.fields.get("$parts") is None and isinstance(res.fields.get("$matrix"), NdArr)
            out["the_indicator_block_alone_is_a_frame"] = z3.BoolVal(ok)
            if not ok:
                return out
            newdf = res
            out["the_rows_keep_the_index_of_the_input"] = z3.BoolVal(res.fields.get("$index") is a.X.fields["$index"])
        else:
            ok = isinstance(res, Obj) and res.tag == "DataFrame" and res.fields.get("$parts") is not None and len(res.fields["$parts"]) == 2
            out["numeric_columns_and_indicator_block_side_by_side"] = z3.BoolVal(ok)
            if not ok:
                return out
            dfnum, newdf = res.fields["$parts"]
            out["numeric_columns_pass_through_with_the_index"] = z3.BoolVal(
                dfnum.fields.get("$cols") == ["x"] and dfnum.fields["$data"]["x"] == a._data["x"]
                and newdf.fields.get("$index") is a.X.fields["$index"] and dfnum.fields.get("$index") is a.X.fields["$index"])
        mat = newdf.fields["$matrix"]
        sch, pos, vec = s.fields["_schema"]
        out["indicator_columns_are_the_schema"] = z3.BoolVal(newdf.fields["$cols"] == sch and isinstance(mat, NdArr)
                                                            and mat.shape == (1, len(sch)))
        if not (isinstance(mat, NdArr) and mat.shape == (1, len(sch))):
            return out
        conj = []
        for i in range(1):
            for c in COLS:
                v = a._data[c][i]
                for j, kk in enumerate(a._cats[c]):
                    cell = (i, pos[c] + j + (1 if wrong and c == "b" and j == 0 else 0))
                    if v is None or v is NaN:
                        conj.append(mat.isnan(*cell))
                    else:
                        conj.append(z3.If(v == kk, z3.And(z3.Not(mat.isnan(*cell)), mat.get(*cell) == 1), mat.isnan(*cell)))
        out["exactly_the_indicator_of_each_present_known_value_nothing_else"] = z3.And(*conj)
        return out

    canaries = {"indicator_in_the_next_cell": lambda E, a, res, old: Transform().ensures(E, a, res, old, wrong=True).get(
        "exactly_the_indicator_of_each_present_known_value_nothing_else", z3.BoolVal(True))}


@contract(F + "::CategoriesToIntegers.fit", "C19")
class Fit(Contract):
    variants = ["explicit-columns", "detected-columns"]
    max_paths = 30000

    def setup(self, E, v):
        s = _self(E, columns=list(COLS) if v == "explicit-columns" else None)
        data = {"a": [E.str("a0"), E.str("a1"), None], "b": [E.str("b0"), NaN, E.str("b2")], "x": [E.real("x0"), E.real("x1"), E.real("x2")]}
        return dict(self=s, X=pdmodel.new_frame(["a", "x", "b"], data), _data=data)

    def old(self, E, a):
        return dict(params={k: a.self.fields[k] for k in ("columns", "remove", "skip_errors", "single")})

    def ensures(self, E, a, res, old):
        s = a.self
        out = {"returns_self": z3.BoolVal(res is s), "categorical_columns": z3.BoolVal(s.fields.get("_fit_columns") == COLS)}
        # what fit detects goes to fitted attributes: the constructor parameters (columns=None means "detect at every fit") are left alone
        out["constructor_parameters_unchanged"] = z3.BoolVal(all(s.fields.get(k) is v for k, v in old["params"].items()))
        d = s.fields.get("_categories")
        if not isinstance(d, dict):
            out["categories"] = z3.BoolVal(False)
            return out
        conj = []
        for c in COLS:
            dc = d.get(c)
            present = [v for v in a._data[c] if is_sym(v)]
            ks = dicts.keys(dc)
            ranks = list(dc.values())
            conj.append(z3.BoolVal(sorted(ranks) == list(range(len(ks)))))
            for v in present:                         # every present value is a category
                conj.append(z3.Or(*[z(k) == v for k in ks]))
            for k in ks:                              # every category is a present value
                conj.append(z3.Or(*[z(k) == v for v in present]))
            byrank = [k for _, k in sorted(zip(ranks, range(len(ks))))]
            for i in range(len(byrank) - 1):          # rank follows the sorted order (strict: distinct)
                conj.append(z(ks[byrank[i]]) < z(ks[byrank[i + 1]]))
        out["categories_are_the_sorted_distinct_present_values"] = z3.And(*conj)
        return out


META = dict(
    level="proof", assumptions=["A2", "A4", "A5", "A6", "A7", "A9"],
    trusted=["pandas: DataFrame[cols], DataFrame[col], .to_dict('records'), .dropna(), .columns/.dtypes/.index/.shape, DataFrame(matrix, columns, index), "
             "concat(axis=1) behave as modelled (pyvc/pdmodel.py)", "z3/cvc5 string theory incl. lexicographic order"],
    not_applicable=["bounded in the shape of the frame (2 categorical columns with 2 categories each, 1-3 rows), complete in the values: names and cells are "
                    "arbitrary strings; larger frames by the bounded stand-in",
                    "single=True (Series.apply path): bounded stand-in only"],
)
