"""C03 - a fitted model depends only on parameters, the last training set and seeds.

Non-interference as a frame condition: `fit` is executed on an instance whose fitted attributes and
private caches hold `Stale` values (what an earlier fit on another training set left).  No Stale value may
survive in a fitted attribute or cache on a normal exit, and no draw from an unseeded generator
(numpy.random.RandomState() without seed) may happen."""
import z3
from pyvc.api import Contract, contract
from pyvc.values import Obj, NdArr, Opaque, z
from pyvc import models
from contracts._frames import FrameFit, Stale, contains_stale
from contracts import C02 as _c02

MM = "mlinsights/mlmodel/"
EST_METHODS = _c02.EST_METHODS
data = _c02.data

# the opaque in-repo steps (assumed contracts) are shared with C02
for _cls in (_c02.ConstraintKMeansAlgo, _c02.FitReglin, _c02.CloneFitted, _c02.AssertEqual, _c02.ToleranceOpaque,
             _c02.NodeFitOpaque, _c02.MappingTrainOpaque, _c02.FitBucketOpaque):
    contract(_cls.key, "C03", assumed=True)(type(_cls.__name__, (_cls,), {}))

# one Lloyd run of KMeansL1L2 is verified here for one clause (its only random draw uses the caller's random state); the steps it calls keep
# the contracts they have - and are proved - under C06 (assumed in this check)
from contracts import C06 as _c06
for _cls in (_c06.EStep, _c06.KInit, _c06.InitCentroids, _c06.CentersDense):
    contract(_cls.key, "C03", assumed=True)(type(_cls.__name__, (_cls,), {"canaries": {}}))


@contract(MM + "kmeans_l1.py::_kmeans_single_lloyd", "C03")
class SingleRunSeed(_c06.SingleRun):
    """one Lloyd run draws random numbers in one place only - the initial centres - and does so with the random state its caller passed
    (a run that ignored it would make the fitted model depend on the state of the global generator)"""
    canaries = {}

    def result(self, E, a, old):
        old["callsite"] = True
        return _c02.SingleRunOpaque.result(self, E, a, old)

    def ensures(self, E, a, res, old):
        if old.get("callsite"):
            return {}
        return {"the_initial_centres_are_drawn_once_with_the_callers_random_state_and_init": z3.BoolVal(_seeded_inits(E, a, old) == [True])}


def _seeded_inits(E, a, old):
    """per call of _init_centroids in this run: is its random_state the generator built in this run from the caller's seed
    (check_random_state(random_state)) - or that very object - and is its init the caller's init"""
    made = [t for t in E.trace[old["tl"]:] if t["op"] == "RandomState"]
    out = []
    for t in E.trace[old["tl"]:]:
        if t["op"] == "_init_centroids":
            rs = t["random_state"]
            out.append(t["init"] is a.init and (rs is a.random_state or any(m["result"] is rs and m["seed"] is a.random_state for m in made)))
    return out


SingleRunSeed.canaries = {"the_initial_centres_ignore_the_random_state": lambda E, a, res, old: z3.BoolVal(True not in _seeded_inits(E, a, old))}


def refit(base, fitted, caches=(), name=None, scan=True):
    """the C03 variant of a C02 frame contract: same setup, primed with stale fitted attributes (and stale caches: every attribute a method
    other than __init__ / fit assigns - scan=False where fit delegates to an opaque in-repo step that sets such attributes itself)"""
    class R(base):
        frame_only = False

        def setup(self, E, v):
            a = base.setup(self, E, v)
            self.prime(E, a["self"])
            return a
    R.fitted = list(fitted)
    R.scan_caches = scan
    R.private_caches = list(caches)
    R.__name__ = name or base.__name__
    return contract(base.key, "C03")(R)


refit(_c02.ConstraintKMeansFit, ["labels_", "cluster_centers_", "inertia_", "n_iter_", "weights_", "cluster_centers_iter_"])
refit(_c02.KMeansL1L2Fit, [], scan=False)          # L2 delegates to KMeans.fit; the L1 branch is the summary of _fit_l1, proved just below
refit(_c02.FitL1Frame, ["cluster_centers_", "labels_", "inertia_", "n_iter_"])   # the real loop over the runs: every fitted attribute is overwritten
refit(_c02.IntervalFit, ["estimators_"])
refit(_c02.QuantileFit, ["coef_", "intercept_", "n_iter_"])
refit(_c02.CakFit, ["labels_", "clus_", "estimator_"])
refit(_c02.TransferFit, ["estimator_"])
refit(_c02.TtrFit, ["transformer_", "regressor_"])
refit(_c02.PiecewiseTreeFit, ["tree_"], scan=False)       # leaves_index_ / leaves_mapping_ are set by _fit_reglin, an opaque step here (C09)
refit(_c02.DtlrFit, ["classes_", "tree_", "n_nodes_"])
refit(_c02.ExtendedFit, ["n_input_features_", "n_output_features_"])
refit(_c02.CategoriesFit, ["_fit_columns", "_categories", "_schema"])
refit(_c02.TsneFit, ["normalizer_", "transformer_", "estimator_", "mean_", "inv_std_", "loss_"])
refit(_c02.PiecewiseFit, ["binner_", "mapping_", "leaves_", "estimators_", "mean_estimator_", "dim_"])


F = MM + "sklearn_transform_inv_fct.py"


@contract(F + "::PermutationReciprocalTransformer.fit", "C03")
class PermFit(FrameFit):
    """refit after the closest=True path has cached a neighbour index: nothing of it may survive"""
    variants = [(L, seeded) for L in (1, 2) for seeded in (False, True)]
    params = ["random_state", "closest"]
    fitted = ["permutation_"]
    private_caches = ["knn_", "knn_perm_"]
    scan_caches = True          # whatever else _find_closest & co. keep on the instance (read from the class source)
    data = ["y"]
    max_paths = 20000

    def setup(self, E, v):
        L, seeded = v
        o = E.new_obj(F + "::PermutationReciprocalTransformer", dict(random_state=E.int("seed") if seeded else None, closest=True))
        self.prime(E, o)
        return dict(self=o, X=None, y=E.nd("y", (L,), "int"), _seeded=seeded)

    def at_exit(self, E, a, old, exc):
        out = FrameFit.at_exit(self, E, a, old, exc)
        draws = [t for t in E.trace[old["tl"]:] if t["op"] == "permutation"]
        if a._seeded:
            # documented: an integer random_state makes the permutation independent of the global generator
            out["integer_random_state_never_uses_the_global_generator"] = z3.BoolVal(all(t["rng"] == "Seeded" for t in draws))
        return out


META = dict(
    level="proof", lean_files=["lemmas/Sums.lean"], assumptions=["A1", "A2", "A6", "A7", "A8", "A9"],
    trusted=["the same assumed contracts as C02 (opaque in-repo steps, scikit-learn calls); RNG provenance tags: numpy.random.* = Global, "
             "RandomState(seed) = Seeded, RandomState() = Entropy"],
    not_applicable=["PiecewiseRegressor/Classifier.fit (bucket bookkeeping, borrowed examples drawn from random_state), DecisionTreeLogisticRegression.fit, "
                    "CategoriesToIntegers.fit: their overwrite/provenance clauses are exercised by the bounded stand-in (refit vs fresh clone, two fits under "
                    "one global seed, integer random_state under different global seeds); see C08/C10/C19 for their functional contracts",
                    "bit-for-bit equality of two fits under the same global seed: consequence of determinism of every dependency (assumed), bounded stand-in"],
)
