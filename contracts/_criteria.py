"""C09 - the compiled split criteria (SimpleRegressorCriterion, SimpleRegressorCriterionFast and their common base), verified on the
Python-subset text extracted mechanically from the .pyx files on every run (pyvc/pyxstrip.py lists exactly what is dropped).

Specification (from the property): for a node range [start, end) of the sample order and a split position pos, with
    w[k]  = sample_weight[sample_indices[k]]  (1 without weights),   y_k = y[sample_indices[k], 0]
    W(a,b) = sum_{a<=k<b} w[k],   M(a,b) = sum w[k] y_k / W(a,b)   (0 if W = 0),
    MSE(a,b) = sum w[k] (y_k - M(a,b))^2 / W(a,b)   (0 if W = 0 or a = b)
node_value = M(start,end); node_impurity = MSE(start,end); children_impurity = MSE(start,pos), MSE(pos,end);
weighted_n_left / right = W(start,pos), W(pos,end); impurity_improvement and its proxy are the stated formulas of those.
Sums are the ghost range sum psum (pyvc/counting.py) with explicitly instantiated lemmas (empty, step, split, frame)."""
import z3
from pyvc.api import Contract, contract
from pyvc.values import Obj, NdArr, z
from pyvc import models, counting
from pyvc.counting import psum

MM = "mlinsights/mlmodel/"
COMMON = MM + "_piecewise_tree_regression_common.pyx"
SIMPLE = MM + "piecewise_tree_regression_criterion.pyx"
FAST = MM + "piecewise_tree_regression_criterion_fast.pyx"


def pget(E, p):
    """*p for a pointer argument: a one-element cell, or a reference to an attribute (&self.attr)"""
    if isinstance(p, Obj) and p.tag == "attr_ref":
        return p.fields["obj"].fields[p.fields["attr"]]
    return p[0]


def pset(E, p, v):
    if isinstance(p, Obj) and p.tag == "attr_ref":
        p.fields["obj"].fields[p.fields["attr"]] = v
    else:
        p[0] = v


def lam(fn, name="k"):
    k = z3.Int(name + "!lam")
    return z3.Lambda([k], fn(k))


def data(E, has_w=True):
    n = E.size("n_samples", 1)
    return dict(y=E.nd("y", (n, 1)), sample_weight=E.nd("sample_weight", (n,)) if has_w else None,
                sample_indices=E.nd("sample_indices", (n,), "int"), n=n)


def valid_indices(idx, n):
    i = z3.Int(models.fresh_name("vi"))
    return z3.ForAll([i], z3.Implies(z3.And(i >= 0, i < z(n)), z3.And(idx.get(i) >= 0, idx.get(i) < z(n))))


def spec_w(d):
    """k -> w[k] as an array term"""
    if d["sample_weight"] is None:
        return lam(lambda k: z3.RealVal(1))
    sw, si = d["sample_weight"].snapshot(), d["sample_indices"].snapshot()
    return lam(lambda k: sw.get(si.get(k)))


def spec_y(d):
    y, si = d["y"].snapshot(), d["sample_indices"].snapshot()
    return lam(lambda k: y.get(si.get(k), 0))


def spec_wy(d):
    W, Y = spec_w(d), spec_y(d)
    return lam(lambda k: W[k] * Y[k])


def spec_wy2(d):
    W, Y = spec_w(d), spec_y(d)
    return lam(lambda k: W[k] * Y[k] * Y[k])


def spec_res2(d, mean):
    """k -> w[k] * (y_k - mean)^2 : the weighted squared residual of the constant fit `mean`"""
    W, Y = spec_w(d), spec_y(d)
    m = z(mean)
    return lam(lambda k: W[k] * (Y[k] - m) * (Y[k] - m))


def spec_mean(d, lo, hi):
    S, W = psum(spec_wy(d), lo, hi), psum(spec_w(d), lo, hi)
    return z3.If(W == 0, z3.RealVal(0), S / W)


def spec_mse(d, lo, hi):
    """THE SPECIFICATION of an impurity: weighted mean squared residual of the weighted-mean fit over [lo, hi)"""
    W = psum(spec_w(d), lo, hi)
    return z3.If(W == 0, z3.RealVal(0), psum(spec_res2(d, spec_mean(d, lo, hi)), lo, hi) / W)


# ======================================================================================================= SimpleRegressorCriterion
def simple_obj(E, d, initialised=True):
    """an instance after __cinit__ (buffers allocated); `initialised`: after init_with_X on the data d (object invariant assumed)"""
    n = d["n"]
    f = dict(n_outputs=1, n_samples=n, sample_w=E.nd("sample_w", (n,)), sample_wy=E.nd("sample_wy", (n,)), sample_i=E.nd("sample_i", (n,), "int"),
             sample_sum_wy=E.real("sum_wy"), sample_sum_w=E.real("sum_w"), sample_weight=None, sample_indices=None,
             start=E.int("start"), pos=E.int("pos"), end=E.int("end"), weighted_n_samples=E.real("wns"),
             weighted_n_node_samples=E.real("wnns"), weighted_n_left=E.real("wnl"), weighted_n_right=E.real("wnr"), y=d["y"])
    o = E.new_obj(SIMPLE + "::SimpleRegressorCriterion", f)
    o.fields["$d"] = d
    return o


def simple_inv(E, s):
    """object invariant of an initialised SimpleRegressorCriterion: the buffers hold w, w*y and the sample ids on [start, end)"""
    d = s.fields["$d"]
    n = z(d["n"])
    st, en, pos = z(s.fields["start"]), z(s.fields["end"]), z(s.fields["pos"])
    sw, swy, si = s.fields["sample_w"], s.fields["sample_wy"], s.fields["sample_i"]
    W, Y = spec_w(d), spec_y(d)
    k = z3.Int(models.fresh_name("k"))
    return {"range_inside_the_buffers": z3.And(0 <= st, st <= pos, pos <= en, en <= n, z(sw.shape[0]) == n, z(swy.shape[0]) == n, z(si.shape[0]) == n,
                                               z(d["y"].shape[0]) == n),
            "buffers_hold_the_weights_the_weighted_targets_and_the_sample_ids": z3.ForAll([k], z3.Implies(z3.And(k >= st, k < en), z3.And(
                si.get(k) == d["sample_indices"].get(k), si.get(k) >= 0, si.get(k) < n, sw.get(k) == W[k], swy.get(k) == W[k] * Y[k])))}


class _SimpleBase(Contract):
    variants = [True, False]          # with / without sample weights

    def mk(self, E, has_w):
        d = data(E, has_w)
        return d, simple_obj(E, d)

    def requires(self, E, a):
        d = a.self.fields["$d"]
        out = {"sample_indices_are_row_numbers": valid_indices(d["sample_indices"], d["n"])}
        out.update(simple_inv(E, a.self))
        return out


def _range(a, lo="start", hi="end"):
    return z3.And(z(a.self.fields["start"]) <= z(a[lo]), z(a[lo]) <= z(a[hi]), z(a[hi]) <= z(a.self.fields["end"]))


@contract(SIMPLE + "::SimpleRegressorCriterion._mean", "C09")
class SimpleMean(_SimpleBase):
    """mean[0] = sum w y / sum w over [start, end) (0 when the weight is 0), weight[0] = sum w; nothing for an empty range"""
    loop_kinds = {}

    def setup(self, E, has_w):
        d, s = self.mk(E, has_w)
        return dict(self=s, start=E.int("a"), end=E.int("b"), mean=[E.real("mean0")], weight=[E.real("weight0")])

    def requires(self, E, a):
        out = _SimpleBase.requires(self, E, a)
        out["sub_range_of_the_node"] = _range(a)
        return out

    def old(self, E, a):
        return dict()

    @staticmethod
    def _inv(E, L):
        s = L["self"]
        a0 = L["start"]
        counting.psum_step(E, s.fields["sample_wy"], a0, L.i)
        counting.psum_step(E, s.fields["sample_w"], a0, L.i)
        counting.psum_empty(E, s.fields["sample_wy"], a0, L.i)
        counting.psum_empty(E, s.fields["sample_w"], a0, L.i)
        return {"partial_sums": z3.And(z(L["m"]) == psum(s.fields["sample_wy"], a0, L.i), z(L["w"]) == psum(s.fields["sample_w"], a0, L.i))}
    loops = {0: _inv.__func__}

    def result(self, E, a, old):
        s = a.self
        if E.branch(z(a.start) == z(a.end)):
            pset(E, a.mean, z3.RealVal(0))
            return None
        pset(E, a.mean, E.real("mean"))
        pset(E, a.weight, E.real("weight"))
        return None

    def ensures(self, E, a, res, old, wrong=False):
        s = a.self
        d = s.fields["$d"]
        counting.psum_congr(E, s.fields["sample_wy"], spec_wy(d), a.start, a.end)       # buffers = specification on the node range
        counting.psum_congr(E, s.fields["sample_w"], spec_w(d), a.start, a.end)
        S, W = psum(spec_wy(d), a.start, a.end), psum(spec_w(d), a.start, a.end)
        empty = z(a.start) == z(a.end)
        return {"empty_range_gives_zero_and_leaves_the_weight": z3.Implies(empty, z(pget(E, a.mean)) == 0),
                "weight_is_the_sum_of_the_weights": z3.Implies(z3.Not(empty), z(pget(E, a.weight)) == W),
                "mean_is_the_weighted_mean": z3.Implies(z3.Not(empty), z(pget(E, a.mean)) == z3.If(W == 0, z3.RealVal(0), (S + (1 if wrong else 0)) / W))}

    canaries = {"mean_shifted": lambda E, a, res, old: SimpleMean().ensures(E, a, res, old, wrong=True)["mean_is_the_weighted_mean"]}


def res2(s, mean):
    """k -> w[k] * (y_k - mean)^2 over the buffers"""
    y, si, sw = s.fields["y"].snapshot(), s.fields["sample_i"].snapshot(), s.fields["sample_w"].snapshot()
    m = z(mean)
    return lam(lambda k: (y.get(si.get(k), 0) - m) * (y.get(si.get(k), 0) - m) * sw.get(k))


@contract(SIMPLE + "::SimpleRegressorCriterion._mse", "C09")
class SimpleMse(_SimpleBase):
    """the weighted mean squared residual around `mean` over [start, end): sum w (y - mean)^2 / weight (0 for an empty range or weight 0)"""

    def setup(self, E, has_w):
        d, s = self.mk(E, has_w)
        return dict(self=s, start=E.int("a"), end=E.int("b"), mean=E.real("mean"), weight=E.real("weight"))

    def requires(self, E, a):
        out = _SimpleBase.requires(self, E, a)
        out["sub_range_of_the_node"] = _range(a)
        return out

    @staticmethod
    def _inv(E, L):
        s = L["self"]
        r = res2(s, L["mean"])
        counting.psum_step(E, r, L["start"], L.i)
        counting.psum_empty(E, r, L["start"], L.i)
        return {"partial_sum_of_weighted_squared_residuals": z(L["squ"]) == psum(r, L["start"], L.i)}
    loops = {0: _inv.__func__}

    def result(self, E, a, old):
        return E.real("mse")

    def ensures(self, E, a, res, old, wrong=False):
        s = a.self
        d = s.fields["$d"]
        counting.psum_congr(E, res2(s, a.mean), spec_res2(d, a.mean), a.start, a.end)
        R = psum(spec_res2(d, a.mean), a.start, a.end)
        return {"weighted_mean_squared_residual": z(res) == z3.If(z3.Or(z(a.start) == z(a.end), z(a.weight) == 0), z3.RealVal(0), R / z(a.weight) + (1 if wrong else 0))}

    canaries = {"mse_shifted": lambda E, a, res, old: SimpleMse().ensures(E, a, res, old, wrong=True)["weighted_mean_squared_residual"]}


@contract(SIMPLE + "::SimpleRegressorCriterion._update_weights", "C09")
class SimpleUpdateWeights(_SimpleBase):
    """weighted_n_left / right = the weight of [start, new_pos) and of [new_pos, end)"""

    def setup(self, E, has_w):
        d, s = self.mk(E, has_w)
        return dict(self=s, start=s.fields["start"], end=s.fields["end"], old_pos=E.int("old_pos"), new_pos=E.int("new_pos"))

    def requires(self, E, a):
        out = _SimpleBase.requires(self, E, a)
        out["new_position_inside_the_node"] = z3.And(z(a.start) <= z(a.new_pos), z(a.new_pos) <= z(a.end),
                                                    z(a.self.fields["start"]) <= z(a.start), z(a.end) <= z(a.self.fields["end"]))
        return out

    @staticmethod
    def _left(E, L):
        s = L["self"]
        counting.psum_step(E, s.fields["sample_w"], L["start"], L.i)
        counting.psum_empty(E, s.fields["sample_w"], L["start"], L.i)
        return {"left_weight_so_far": z(s.fields["weighted_n_left"]) == psum(s.fields["sample_w"], L["start"], L.i),
                "right_weight_still_zero": z(s.fields["weighted_n_right"]) == 0}

    @staticmethod
    def _right(E, L):
        s = L["self"]
        counting.psum_step(E, s.fields["sample_w"], L["new_pos"], L.i)
        counting.psum_empty(E, s.fields["sample_w"], L["new_pos"], L.i)
        return {"right_weight_so_far": z(s.fields["weighted_n_right"]) == psum(s.fields["sample_w"], L["new_pos"], L.i),
                "left_weight_complete": z(s.fields["weighted_n_left"]) == psum(s.fields["sample_w"], L["start"], L["new_pos"])}
    loops = {0: _left.__func__, 1: _right.__func__}

    def result(self, E, a, old):
        a.self.fields["weighted_n_left"], a.self.fields["weighted_n_right"] = E.real("wnl"), E.real("wnr")
        return None

    def ensures(self, E, a, res, old):
        s = a.self
        d = s.fields["$d"]
        counting.psum_congr(E, s.fields["sample_w"], spec_w(d), a.start, a.new_pos)
        counting.psum_congr(E, s.fields["sample_w"], spec_w(d), a.new_pos, a.end)
        return {"left_weight": z(s.fields["weighted_n_left"]) == psum(spec_w(d), a.start, a.new_pos),
                "right_weight": z(s.fields["weighted_n_right"]) == psum(spec_w(d), a.new_pos, a.end)}


@contract(SIMPLE + "::SimpleRegressorCriterion.init_with_X", "C09")
class SimpleInit(Contract):
    """fills the buffers for [start, end): establishes the object invariant, the node weight and the initial split position"""
    variants = [True, False]

    def setup(self, E, has_w):
        d = data(E, has_w)
        s = simple_obj(E, d)
        for f in ("sample_w", "sample_wy"):
            counting.track_psum(E, s.fields[f])
        return dict(self=s, y=d["y"], sample_weight=d["sample_weight"], weighted_n_samples=E.real("wns_in"), sample_indices=d["sample_indices"],
                    start=E.int("start_in"), end=E.int("end_in"), _d=d)

    def requires(self, E, a):
        n = z(a._d["n"])
        s = a.self
        return {"sample_indices_are_row_numbers": valid_indices(a.sample_indices, a._d["n"]),
                "range_inside_the_data": z3.And(0 <= z(a.start), z(a.start) <= z(a.end), z(a.end) <= n),
                "buffers_allocated_for_n_samples": z3.And(*[z(s.fields[f].shape[0]) == n for f in ("sample_w", "sample_wy", "sample_i")], z(a.y.shape[0]) == n,
                                                          z3.BoolVal(a.sample_weight is None) if a.sample_weight is None else z(a.sample_weight.shape[0]) == n)}

    @staticmethod
    def _inv(E, L):
        s = L["self"]
        d = s.fields["$d"]
        st = L["start"]
        sw, swy, si = s.fields["sample_w"], s.fields["sample_wy"], s.fields["sample_i"]
        W, Y = spec_w(d), spec_y(d)
        k = z3.Int(models.fresh_name("k"))
        for arr in (sw, swy):
            counting.psum_step(E, arr, st, L.i)
            counting.psum_empty(E, arr, st, L.i)
        return {"filled_so_far": z3.ForAll([k], z3.Implies(z3.And(k >= z(st), k < z(L.i)), z3.And(
            si.get(k) == d["sample_indices"].get(k), sw.get(k) == W[k], swy.get(k) == W[k] * Y[k]))),
            "running_sums": z3.And(z(s.fields["sample_sum_w"]) == psum(sw, st, L.i), z(s.fields["sample_sum_wy"]) == psum(swy, st, L.i)),
            "range_recorded": z3.And(z(s.fields["start"]) == z(st), z(s.fields["end"]) == z(L["end"]), z(s.fields["pos"]) == z(st))}
    loops = {0: _inv.__func__}

    def ensures(self, E, a, res, old):
        s = a.self
        out = {"returns_zero": z(res) == 0 if res is not None else z3.BoolVal(False)}
        out["range_recorded_and_split_position_at_start"] = z3.And(z(s.fields["start"]) == z(a.start), z(s.fields["end"]) == z(a.end), z(s.fields["pos"]) == z(a.start),
                                                                    z(s.fields["weighted_n_samples"]) == z(a.weighted_n_samples))
        inv = simple_inv(E, s)
        out["object_invariant_established"] = inv["buffers_hold_the_weights_the_weighted_targets_and_the_sample_ids"]
        d = a._d
        counting.psum_congr(E, s.fields["sample_w"], spec_w(d), a.start, a.end)
        counting.psum_congr(E, s.fields["sample_wy"], spec_wy(d), a.start, a.end)
        counting.psum_empty(E, spec_w(d), a.start, a.start)
        W = psum(spec_w(d), a.start, a.end)
        out["node_weight_is_the_sum_of_the_weights"] = z3.And(z(s.fields["weighted_n_node_samples"]) == W, z(s.fields["sample_sum_w"]) == W,
                                                              z(s.fields["sample_sum_wy"]) == psum(spec_wy(d), a.start, a.end))
        out["everything_on_the_right_at_the_start"] = z3.And(z(s.fields["weighted_n_left"]) == 0, z(s.fields["weighted_n_right"]) == W)
        return out


# ======================================================================================================= SimpleRegressorCriterionFast
def fast_obj(E, d):
    n = d["n"]
    f = dict(n_outputs=1, n_samples=n, sample_w_left=E.nd("sample_w_left", (n,)), sample_wy_left=E.nd("sample_wy_left", (n,)),
             sample_wy2_left=E.nd("sample_wy2_left", (n,)), sample_weight=None, sample_indices=None,
             start=E.int("start"), pos=E.int("pos"), end=E.int("end"), weighted_n_samples=E.real("wns"),
             weighted_n_node_samples=E.real("wnns"), weighted_n_left=E.real("wnl"), weighted_n_right=E.real("wnr"), y=d["y"])
    o = E.new_obj(FAST + "::SimpleRegressorCriterionFast", f)
    o.fields["$d"] = d
    return o


def fast_prefix(s, d, upto=None, first=None):
    """the cumulated buffers hold the prefix sums of w, w*y, w*y*y from `start` on [start, upto), and zero before start / from end on"""
    st, en = z(s.fields["start"]) if first is None else z(first), z(s.fields["end"])
    hi = en if upto is None else z(upto)
    k = z3.Int(models.fresh_name("k"))
    bufs = (("sample_w_left", spec_w(d)), ("sample_wy_left", spec_wy(d)), ("sample_wy2_left", spec_wy2(d)))
    return z3.ForAll([k], z3.And(*[z3.Implies(z3.And(k >= st, k < hi), s.fields[b].get(k) == psum(sp, st, k + 1)) for b, sp in bufs]))


def fast_inv(E, s):
    d = s.fields["$d"]
    n = z(d["n"])
    st, en, pos = z(s.fields["start"]), z(s.fields["end"]), z(s.fields["pos"])
    k = z3.Int(models.fresh_name("k"))
    bufs = ("sample_w_left", "sample_wy_left", "sample_wy2_left")
    return {"range_inside_the_buffers": z3.And(0 <= st, st < en, st <= pos, pos <= en, en <= n, z(d["y"].shape[0]) == n,
                                               *[z(s.fields[b].shape[0]) == n for b in bufs]),
            "cumulated_buffers_are_prefix_sums_from_start": fast_prefix(s, d),
            "buffers_are_zero_outside_the_node": z3.ForAll([k], z3.Implies(z3.And(k >= 0, k < n, z3.Or(k < st, k >= en)),
                                                                            z3.And(*[s.fields[b].get(k) == 0 for b in bufs])))}


class _FastBase(Contract):
    variants = [True, False]

    def mk(self, E, has_w):
        d = data(E, has_w)
        return d, fast_obj(E, d)

    def requires(self, E, a):
        d = a.self.fields["$d"]
        out = {"sample_indices_are_row_numbers": valid_indices(d["sample_indices"], d["n"])}
        out.update(fast_inv(E, a.self))
        return out


def _fast_range_lemmas(E, s, lo, hi):
    """psum(spec, lo, hi) = prefix(hi) - prefix(lo) for the three cumulated quantities (split at lo, empty at start)"""
    d = s.fields["$d"]
    st = s.fields["start"]
    for sp in (spec_w(d), spec_wy(d), spec_wy2(d)):
        counting.psum_split(E, sp, st, lo, hi)
        counting.psum_empty(E, sp, st, st)


@contract(FAST + "::SimpleRegressorCriterionFast._mean", "C09")
class FastMean(_FastBase):
    """same contract as the simple criterion, computed from the cumulated sums"""

    def setup(self, E, has_w):
        d, s = self.mk(E, has_w)
        return dict(self=s, start=E.int("a"), end=E.int("b"), mean=[E.real("mean0")], weight=[E.real("weight0")])

    def requires(self, E, a):
        out = _FastBase.requires(self, E, a)
        out["sub_range_of_the_node"] = _range(a)
        return out

    def old(self, E, a):
        return dict()

    result = SimpleMean.result

    def ensures(self, E, a, res, old, wrong=False):
        s = a.self
        d = s.fields["$d"]
        _fast_range_lemmas(E, s, a.start, a.end)
        S, W = psum(spec_wy(d), a.start, a.end), psum(spec_w(d), a.start, a.end)
        empty = z(a.start) == z(a.end)
        return {"empty_range_gives_zero": z3.Implies(empty, z(pget(E, a.mean)) == 0),
                "weight_is_the_sum_of_the_weights": z3.Implies(z3.Not(empty), z(pget(E, a.weight)) == W),
                "mean_is_the_weighted_mean": z3.Implies(z3.Not(empty), z(pget(E, a.mean)) == z3.If(W == 0, z3.RealVal(0), (S + (1 if wrong else 0)) / W))}

    canaries = {"mean_shifted": lambda E, a, res, old: FastMean().ensures(E, a, res, old, wrong=True)["mean_is_the_weighted_mean"]}


def weighted_variance_lemma(E, d, mean, lo, hi):
    """sum w (y - m)^2 = sum w y^2 - 2 m sum w y + m^2 sum w   (expansion of the square, linearity of the sum; lemmas/Counting.lean)"""
    m = z(mean)
    R, Q, S, W = psum(spec_res2(d, mean), lo, hi), psum(spec_wy2(d), lo, hi), psum(spec_wy(d), lo, hi), psum(spec_w(d), lo, hi)
    # with m the weighted mean of the same range (m = S / W, W != 0):  R / W = Q / W - m^2   (Pyvc.weighted_variance in lemmas/Counting.lean)
    E.axiom(z3.Implies(z3.And(W != 0, m == S / W), R / W == Q / W - m * m))
    E.used_lemmas.add("weighted_variance")


@contract(FAST + "::SimpleRegressorCriterionFast._mse", "C09")
class FastMse(_FastBase):
    """sum w y^2 / weight - mean^2: the weighted mean squared residual PROVIDED mean and weight are those of the same range
    (the formula is wrong for any other mean - the code's own comment; every caller in the common base passes them)"""

    def setup(self, E, has_w):
        d, s = self.mk(E, has_w)
        return dict(self=s, start=E.int("a"), end=E.int("b"), mean=E.real("mean"), weight=E.real("weight"))

    def requires(self, E, a):
        out = _FastBase.requires(self, E, a)
        d = a.self.fields["$d"]
        out["sub_range_of_the_node"] = _range(a)
        out["mean_and_weight_are_those_of_the_same_range"] = z3.Implies(z(a.start) < z(a.end), z3.And(
            z(a.weight) == psum(spec_w(d), a.start, a.end), z(a.mean) == spec_mean(d, a.start, a.end)))
        return out

    def result(self, E, a, old):
        return E.real("mse")

    def ensures(self, E, a, res, old, wrong=False):
        s = a.self
        d = s.fields["$d"]
        _fast_range_lemmas(E, s, a.start, a.end)
        weighted_variance_lemma(E, d, a.mean, a.start, a.end)
        R = psum(spec_res2(d, a.mean), a.start, a.end)
        return {"weighted_mean_squared_residual": z(res) == z3.If(z3.Or(z(a.start) == z(a.end), z(a.weight) == 0), z3.RealVal(0), R / z(a.weight) + (1 if wrong else 0))}

    canaries = {"mse_shifted": lambda E, a, res, old: FastMse().ensures(E, a, res, old, wrong=True)["weighted_mean_squared_residual"]}


@contract(FAST + "::SimpleRegressorCriterionFast._update_weights", "C09")
class FastUpdateWeights(_FastBase):
    def setup(self, E, has_w):
        d, s = self.mk(E, has_w)
        return dict(self=s, start=s.fields["start"], end=s.fields["end"], old_pos=E.int("old_pos"), new_pos=E.int("new_pos"))

    def requires(self, E, a):
        out = _FastBase.requires(self, E, a)
        out["new_position_inside_the_node"] = z3.And(z(a.start) <= z(a.new_pos), z(a.new_pos) <= z(a.end))
        return out

    result = SimpleUpdateWeights.result

    def ensures(self, E, a, res, old):
        s = a.self
        d = s.fields["$d"]
        _fast_range_lemmas(E, s, a.new_pos, a.end)
        return {"left_weight": z(s.fields["weighted_n_left"]) == psum(spec_w(d), a.start, a.new_pos),
                "right_weight": z(s.fields["weighted_n_right"]) == psum(spec_w(d), a.new_pos, a.end)}


@contract(FAST + "::SimpleRegressorCriterionFast.init_with_X", "C09")
class FastInit(Contract):
    """zero-fills the cumulated buffers, then fills the prefix sums of w, w*y, w*y*y over [start, end): establishes the object invariant"""
    variants = [True, False]

    def setup(self, E, has_w):
        d = data(E, has_w)
        s = fast_obj(E, d)
        return dict(self=s, y=d["y"], sample_weight=d["sample_weight"], weighted_n_samples=E.real("wns_in"), sample_indices=d["sample_indices"],
                    start=E.int("start_in"), end=E.int("end_in"), _d=d)

    def requires(self, E, a):
        n = z(a._d["n"])
        s = a.self
        return {"sample_indices_are_row_numbers": valid_indices(a.sample_indices, a._d["n"]),
                "non_empty_range_inside_the_data": z3.And(0 <= z(a.start), z(a.start) < z(a.end), z(a.end) <= n),
                "buffers_allocated_for_n_samples": z3.And(*[z(s.fields[f].shape[0]) == n for f in ("sample_w_left", "sample_wy_left", "sample_wy2_left")],
                                                          z(a.y.shape[0]) == n, z(s.fields["n_samples"]) == n,
                                                          z3.BoolVal(True) if a.sample_weight is None else z(a.sample_weight.shape[0]) == n)}

    BUFS = ("sample_w_left", "sample_wy_left", "sample_wy2_left")

    @staticmethod
    def _zero(E, L):
        s = L["self"]
        k = z3.Int(models.fresh_name("k"))
        return {"zero_so_far": z3.ForAll([k], z3.Implies(z3.And(k >= 0, k < z(L.i)), z3.And(*[s.fields[b].get(k) == 0 for b in FastInit.BUFS])))}

    @staticmethod
    def _frame_zero(E, L, filled_upto):
        s = L["self"]
        n = z(s.fields["n_samples"])
        k = z3.Int(models.fresh_name("k"))
        return z3.ForAll([k], z3.Implies(z3.And(k >= 0, k < n, z3.Or(k < z(L["start"]), k >= z(filled_upto))), z3.And(*[s.fields[b].get(k) == 0 for b in FastInit.BUFS])))

    @staticmethod
    def _first(E, L):
        s = L["self"]
        d = s.fields["$d"]
        st = L["start"]
        for sp in (spec_w(d), spec_wy(d), spec_wy2(d)):
            counting.psum_step(E, sp, st, z(st) + 1)
            counting.psum_empty(E, sp, st, st)
        return {"first_entry_filled_once_the_loop_has_run": fast_prefix(s, d, upto=L.i, first=st),
                "zero_elsewhere": FastInit._frame_zero(E, L, L.i)}

    @staticmethod
    def _rest(E, L):
        s = L["self"]
        d = s.fields["$d"]
        st = L["start"]
        for sp in (spec_w(d), spec_wy(d), spec_wy2(d)):
            counting.psum_step(E, sp, st, z(L.i) + 0)
            counting.psum_step(E, sp, st, z(L.i) + 1)
        return {"prefix_sums_so_far": fast_prefix(s, d, upto=L.i, first=st), "zero_elsewhere": FastInit._frame_zero(E, L, L.i)}
    loops = {0: _zero.__func__, 1: _first.__func__, 2: _rest.__func__}

    def ensures(self, E, a, res, old):
        s = a.self
        d = a._d
        out = {"returns_zero": z(res) == 0 if res is not None else z3.BoolVal(False)}
        out["range_recorded_and_split_position_at_start"] = z3.And(z(s.fields["start"]) == z(a.start), z(s.fields["end"]) == z(a.end), z(s.fields["pos"]) == z(a.start),
                                                                    z(s.fields["weighted_n_samples"]) == z(a.weighted_n_samples))
        inv = fast_inv(E, s)
        out["object_invariant_established_prefix_sums"] = inv["cumulated_buffers_are_prefix_sums_from_start"]
        out["object_invariant_established_zero_outside"] = inv["buffers_are_zero_outside_the_node"]
        counting.psum_empty(E, spec_w(d), a.start, a.start)
        W = psum(spec_w(d), a.start, a.end)
        out["node_weight_is_the_sum_of_the_weights"] = z(s.fields["weighted_n_node_samples"]) == W
        out["everything_on_the_right_at_the_start"] = z3.And(z(s.fields["weighted_n_left"]) == 0, z(s.fields["weighted_n_right"]) == W)
        return out


# ======================================================================================================= the common base, for both criteria
KINDS = [(cls, hw) for cls in ("simple", "fast") for hw in (True, False)]


class _CommonBase(Contract):
    variants = KINDS

    def mk(self, E, v):
        cls, has_w = v
        d = data(E, has_w)
        return d, (simple_obj(E, d) if cls == "simple" else fast_obj(E, d))

    def requires(self, E, a):
        s = a.self
        d = s.fields["$d"]
        out = {"sample_indices_are_row_numbers": valid_indices(d["sample_indices"], d["n"])}
        out.update(simple_inv(E, s) if "sample_w" in s.fields else fast_inv(E, s))
        return out


@contract(COMMON + "::CommonRegressorCriterion.node_value", "C09")
class NodeValue(_CommonBase):
    """THE PROPERTY: the node value is the weighted mean of the node's targets"""

    def setup(self, E, v):
        d, s = self.mk(E, v)
        return dict(self=s, dest=[E.real("dest0")])

    def requires(self, E, a):
        out = _CommonBase.requires(self, E, a)
        out["non_empty_node"] = z(a.self.fields["start"]) < z(a.self.fields["end"])
        return out

    def ensures(self, E, a, res, old):
        s = a.self
        return {"node_value_is_the_weighted_mean": z(a.dest[0]) == spec_mean(s.fields["$d"], s.fields["start"], s.fields["end"])}


@contract(COMMON + "::CommonRegressorCriterion.node_impurity", "C09")
class NodeImpurity(_CommonBase):
    """THE PROPERTY: the impurity of the node is the weighted mean squared residual of the constant (weighted mean) fit"""

    def setup(self, E, v):
        d, s = self.mk(E, v)
        return dict(self=s)

    def requires(self, E, a):
        out = _CommonBase.requires(self, E, a)
        out["non_empty_node"] = z(a.self.fields["start"]) < z(a.self.fields["end"])
        return out

    def ensures(self, E, a, res, old):
        s = a.self
        return {"impurity_is_the_weighted_mse_around_the_weighted_mean": z(res) == spec_mse(s.fields["$d"], s.fields["start"], s.fields["end"])}


@contract(COMMON + "::CommonRegressorCriterion.children_impurity", "C09")
class ChildrenImpurity(_CommonBase):
    """THE PROPERTY: children impurities are the weighted MSE of [start, pos) and [pos, end) around their own weighted means"""

    def setup(self, E, v):
        d, s = self.mk(E, v)
        return dict(self=s, impurity_left=[E.real("il0")], impurity_right=[E.real("ir0")])

    def requires(self, E, a):
        out = _CommonBase.requires(self, E, a)
        s = a.self
        out["proper_split"] = z3.And(z(s.fields["start"]) < z(s.fields["pos"]), z(s.fields["pos"]) < z(s.fields["end"]))
        return out

    def ensures(self, E, a, res, old):
        s = a.self
        d = s.fields["$d"]
        return {"left_impurity_is_the_weighted_mse_of_that_child": z(a.impurity_left[0]) == spec_mse(d, s.fields["start"], s.fields["pos"]),
                "right_impurity_is_the_weighted_mse_of_that_child": z(a.impurity_right[0]) == spec_mse(d, s.fields["pos"], s.fields["end"])}


@contract(COMMON + "::CommonRegressorCriterion.update", "C09")
class Update(_CommonBase):
    """moving the split position: pos = new_pos, weighted_n_left / right are the weights of the two sides"""

    def setup(self, E, v):
        d, s = self.mk(E, v)
        return dict(self=s, new_pos=E.int("new_pos"))

    def requires(self, E, a):
        out = _CommonBase.requires(self, E, a)
        s = a.self
        out["new_position_inside_the_node"] = z3.And(z(s.fields["start"]) <= z(a.new_pos), z(a.new_pos) <= z(s.fields["end"]))
        return out

    def ensures(self, E, a, res, old):
        s = a.self
        d = s.fields["$d"]
        return {"returns_zero": z(res) == 0 if res is not None else z3.BoolVal(False), "position_moved": z(s.fields["pos"]) == z(a.new_pos),
                "left_weight": z(s.fields["weighted_n_left"]) == psum(spec_w(d), s.fields["start"], a.new_pos),
                "right_weight": z(s.fields["weighted_n_right"]) == psum(spec_w(d), a.new_pos, s.fields["end"])}


@contract(COMMON + "::CommonRegressorCriterion.impurity_improvement", "C09")
class Improvement(_CommonBase):
    """N_t / N * (impurity - N_t_R / N_t * right - N_t_L / N_t * left)"""

    def setup(self, E, v):
        d, s = self.mk(E, v)
        return dict(self=s, impurity_parent=E.real("ip"), impurity_left=E.real("il"), impurity_right=E.real("ir"))

    def requires(self, E, a):
        s = a.self
        return {"positive_weights": z3.And(z(s.fields["weighted_n_node_samples"]) > 0, z(s.fields["weighted_n_samples"]) > 0)}

    def ensures(self, E, a, res, old):
        s = a.self
        Nt, N = z(s.fields["weighted_n_node_samples"]), z(s.fields["weighted_n_samples"])
        return {"stated_formula": z(res) == (Nt / N) * (z(a.impurity_parent) - z(s.fields["weighted_n_right"]) / Nt * z(a.impurity_right)
                                                        - z(s.fields["weighted_n_left"]) / Nt * z(a.impurity_left))}


@contract(COMMON + "::CommonRegressorCriterion.proxy_impurity_improvement", "C09")
class Proxy(_CommonBase):
    """- N_t_R * right impurity - N_t_L * left impurity for a proper split (NaN at the ends); refreshes weighted_n_left / right"""

    def setup(self, E, v):
        d, s = self.mk(E, v)
        return dict(self=s)

    def requires(self, E, a):
        out = _CommonBase.requires(self, E, a)
        s = a.self
        out["non_empty_node"] = z(s.fields["start"]) < z(s.fields["end"])
        return out

    def ensures(self, E, a, res, old):
        from pyvc.values import NaN
        s = a.self
        d = s.fields["$d"]
        st, pos, en = s.fields["start"], s.fields["pos"], s.fields["end"]
        at_end = z3.Or(z(pos) == z(st), z(pos) == z(en))
        if res is NaN:
            return {"nan_only_at_the_ends": at_end}
        wl, wr = psum(spec_w(d), st, pos), psum(spec_w(d), pos, en)
        return {"a_number_only_for_a_proper_split": z3.Not(at_end),
                "proxy_is_minus_the_weighted_children_impurities": z(res) == -wr * spec_mse(d, pos, en) - wl * spec_mse(d, st, pos),
                "children_weights_refreshed": z3.And(z(s.fields["weighted_n_left"]) == wl, z(s.fields["weighted_n_right"]) == wr)}


for _name, _where in (("reset", "start"), ("reverse_reset", "end")):
    def _mk(name, where):
        class Reset(_CommonBase):
            def setup(self, E, v):
                d, s = self.mk(E, v)
                return dict(self=s)

            def requires(self, E, a):
                out = _CommonBase.requires(self, E, a)
                out["non_empty_node"] = z(a.self.fields["start"]) < z(a.self.fields["end"])
                return out

            def ensures(self, E, a, res, old):
                s = a.self
                d = s.fields["$d"]
                p = s.fields[where]
                return {"returns_zero": z(res) == 0 if res is not None else z3.BoolVal(False), "position_at_" + where: z(s.fields["pos"]) == z(p),
                        "left_weight": z(s.fields["weighted_n_left"]) == psum(spec_w(d), s.fields["start"], p),
                        "right_weight": z(s.fields["weighted_n_right"]) == psum(spec_w(d), p, s.fields["end"])}
        Reset.__name__ = "Reset_" + name
        Reset.__doc__ = "split position moved to %s; the children weights follow" % where
        return contract(COMMON + "::CommonRegressorCriterion." + name, "C09")(Reset)
    _mk(_name, _where)
