"""C15 - learner-to-transformer wrappers are transparent."""
import z3
from pyvc.api import Contract, contract
from contracts._frames import query_frame
from pyvc.values import Obj, NdArr, Opaque, z
from pyvc import models
from pyvc.engine import ExternFn, LambdaFn
from contracts import C02 as _c02

SK = "mlinsights/sklapi/"
MM = "mlinsights/mlmodel/"
ALLM = ("fit", "predict", "predict_proba", "decision_function", "transform", "get_params", "set_params")
from contracts._clone import CloneFittedBase
for _cls in (_c02.AssertEqual,):
    contract(_cls.key, "C15", assumed=True)(type(_cls.__name__, (_cls,), {}))


@contract(_c02.CloneFitted.key, "C15")
class CloneFitted(CloneFittedBase):
    """clone_with_fitted_parameters is PROVED on generic estimator shapes (every fitted / private attribute deep-copied: no array cell shared
    with the original); at the call sites of this property (TransferTransformer.fit) the real function is executed"""

    pass


def _P(E):
    return E.new_obj(SK + "sklearn_parameters.py::SkLearnParameters", dict(_keys=[]))


def _learner(E, method, bind=True, methods=ALLM):
    m = models.new_estimator(E, "model", methods=methods, fitted=True)
    s = E.new_obj(SK + "sklearn_base_transform_learner.py::SkBaseTransformLearner", dict(P=_P(E), model=m, method=method))
    if bind:
        s.fields["method_"] = E.getattr(m, method) if isinstance(method, str) else method
    return s


@contract(SK + "sklearn_base_transform_learner.py::SkBaseTransformLearner._set_method", "C15")
class SetMethod(Contract):
    variants = ["predict", "predict_proba", "decision_function", "transform", "callable", "unknown-name", "not-callable"]

    def setup(self, E, v):
        s = _learner(E, "predict", bind=False)
        if v == "callable":
            method = models.new_estimator(E, "fn", methods=())
            method.fields["$callable"] = True
        elif v == "unknown-name":
            method = "predict_log_proba"
        elif v == "not-callable":
            method = 5
        else:
            method = v
        return dict(self=s, method=method, _v=v)

    def signals(self, E, a, exc, old):
        if a._v == "unknown-name":
            return {"refused_with_ValueError": z3.BoolVal(exc == "ValueError")}
        if a._v == "not-callable":
            return {"refused_with_TypeError": z3.BoolVal(exc == "TypeError")}
        return None

    def ensures(self, E, a, res, old):
        s = a.self
        mm = s.fields.get("method_")
        if a._v in ("unknown-name", "not-callable"):
            return {"must_be_refused": z3.BoolVal(False)}
        if a._v == "callable":
            return {"binds_the_callable_itself": z3.BoolVal(mm is a.method)}
        return {"binds_the_models_own_method_of_that_name": z3.BoolVal(
            isinstance(mm, ExternFn) and mm.self_obj is s.fields["model"] and mm.name == "estimator." + a._v)}


@contract(SK + "sklearn_base_transform.py::SkBaseTransform.fit_transform", "C15")
class FitTransform(Contract):
    """the inherited fit_transform (what a Pipeline calls on a non-final step) is fit(X, y, **kwargs) followed by transform(X): the wrapped
    model is trained exactly as a direct fit would - targets and extra fit arguments included, with or without targets"""
    variants = [(hy, hk) for hy in (True, False) for hk in (True, False)]

    def setup(self, E, v):
        has_y, has_kw = v
        n = E.size("n", 1)
        d = dict(self=_learner(E, "predict"), X=E.nd("X", (n, E.size("d", 1))), y=E.nd("y", (n,)) if has_y else None)
        if has_kw:
            d["kwargs"] = {"sample_weight": E.nd("w", (n,))}
        d["_kw"] = has_kw
        return d

    def old(self, E, a):
        return dict(tl=len(E.trace))

    def ensures(self, E, a, res, old, drop_kwargs=False):
        m = a.self.fields["model"]
        ev = [t for t in E.trace[old["tl"]:] if t["op"] in ("fit",) + tuple(ALLM) and t["obj"] is m]
        ok = len(ev) == 2 and ev[0]["op"] == "fit" and ev[1]["op"] == "predict" and ev[0]["X"] is a.X and ev[1]["X"] is a.X
        out = {"one_fit_then_one_call_of_the_chosen_method_on_X": z3.BoolVal(ok)}
        if ok:
            out["trained_on_the_targets_given_or_none"] = z3.BoolVal(ev[0]["y"] is a.y)
            want_w = a.kwargs["sample_weight"] if (a._kw and not drop_kwargs) else None
            out["extra_fit_arguments_passed_on"] = z3.BoolVal(ev[0]["w"] is want_w)
            out["returns_the_output_of_the_model_trained_just_now"] = z3.BoolVal(
                isinstance(res, NdArr) and res.ndim == 2 and z3.eq(ev[1]["state"], m.fields["$state"]) and z3.eq(ev[0]["post_state"], ev[1]["state"]))
        return out

    canaries = {"fit_arguments_dropped": lambda E, a, res, old: FitTransform().ensures(E, a, res, old, drop_kwargs=True).get(
        "extra_fit_arguments_passed_on", z3.BoolVal(True)) if a._kw else z3.BoolVal(False)}


@contract(SK + "sklearn_base_transform_learner.py::SkBaseTransformLearner.transform", "C15")
@query_frame("self")
class LearnerTransform(Contract):
    variants = ["predict", "predict_proba", "decision_function", "transform"]

    def setup(self, E, v):
        return dict(self=_learner(E, v), X=E.nd("X", (E.size("n", 0), E.size("d", 1))), _v=v)

    def old(self, E, a):
        return dict(tl=len(E.trace), X=a.X.snapshot())

    def ensures(self, E, a, res, old, wrong=False):
        tr = [t for t in E.trace[old["tl"]:] if t["op"] in ALLM]
        m = a.self.fields["model"]
        out = {"exactly_one_call_of_the_chosen_method_on_X": z3.BoolVal(len(tr) == 1 and tr[0]["op"] == a._v and tr[0]["obj"] is m and tr[0]["X"] is a.X)}
        ok = isinstance(res, NdArr) and res.ndim == 2
        out["two_dimensional"] = z3.BoolVal(ok)
        if ok and len(tr) == 1:
            st = tr[0]["state"]
            n = z(a.X.shape[0])
            if a._v == "predict":
                out["values_are_the_models_output"] = z3.And(z(res.shape[0]) == n, z(res.shape[1]) == 1, E.forall_range(
                    [(0, n)], lambda r: res.get(r, 0) == models.predF(st, models.row_of(E, old["X"], r + (1 if wrong else 0)))))
            else:
                w = res.shape[1]
                out["values_are_the_models_output"] = z3.And(z(res.shape[0]) == n, E.forall_range(
                    [(0, n), (0, z(w))], lambda r, c: res.get(r, c) == models.out2F[a._v](st, models.row_of(E, old["X"], r), c + (1 if wrong else 0))))
        return out

    canaries = {"shifted_output": lambda E, a, res, old: LearnerTransform().ensures(E, a, res, old, wrong=True).get(
        "values_are_the_models_output", z3.BoolVal(True))}


@contract(SK + "sklearn_base_transform_learner.py::SkBaseTransformLearner.fit", "C15")
class LearnerFit(Contract):
    variants = ["y", "no-y", "kwargs"]

    def setup(self, E, v):
        n = E.size("n", 1)
        d = dict(self=_learner(E, "predict"), X=E.nd("X", (n, E.size("d", 1))), y=E.nd("y", (n,)) if v != "no-y" else None)
        if v == "kwargs":
            d["kwargs"] = {"sample_weight": E.nd("w", (n,))}
        d["_v"] = v
        return d

    def old(self, E, a):
        return dict(tl=len(E.trace))

    def ensures(self, E, a, res, old):
        fits = [t for t in E.trace[old["tl"]:] if t["op"] == "fit"]
        ok = len(fits) == 1 and fits[0]["obj"] is a.self.fields["model"] and fits[0]["X"] is a.X and fits[0]["y"] is a.y
        out = {"returns_self": z3.BoolVal(res is a.self), "trains_the_wrapped_model_exactly_as_a_direct_fit": z3.BoolVal(ok)}
        if ok and a._v == "kwargs":
            out["extra_fit_arguments_passed_on"] = z3.BoolVal(fits[0]["w"] is a.kwargs["sample_weight"])
        return out


@contract(SK + "sklearn_base_transform_stacking.py::SkBaseTransformStacking.__init__", "C15")
class StackingInit(Contract):
    def setup(self, E, v):
        learner = models.new_estimator(E, "learner", methods=("fit", "predict", "predict_proba", "get_params", "set_params"))
        transformer = models.new_estimator(E, "transformer", methods=("fit", "transform", "get_params", "set_params"))
        s = Obj(E.repo.module(SK + "sklearn_base_transform_stacking.py").defs["SkBaseTransformStacking"])
        return dict(self=s, models=[learner, transformer], method="predict_proba", _l=learner, _t=transformer)

    def ensures(self, E, a, res, old):
        ms = a.self.fields.get("models")
        ok = isinstance(ms, list) and len(ms) == 2
        out = {"two_members": z3.BoolVal(ok)}
        if ok:
            w = ms[0]
            out["learner_is_wrapped_with_the_requested_method"] = z3.BoolVal(
                isinstance(w, Obj) and w.fields.get("model") is a._l and w.fields.get("method") == "predict_proba"
                and isinstance(w.fields.get("method_"), ExternFn) and w.fields["method_"].self_obj is a._l
                and w.fields["method_"].name == "estimator.predict_proba")
            out["transformer_is_kept"] = z3.BoolVal(ms[1] is a._t)
        return out


def _stack(E, k):
    members = []
    for i in range(k):
        t = models.new_estimator(E, "t%d" % i, methods=("fit", "transform", "get_params", "set_params"), fitted=True)
        members.append(t)
    return E.new_obj(SK + "sklearn_base_transform_stacking.py::SkBaseTransformStacking", dict(P=_P(E), models=members, method="predict"))


@contract(SK + "sklearn_base_transform_stacking.py::SkBaseTransformStacking.transform", "C15")
@query_frame("self")
class StackingTransform(Contract):
    variants = [1, 2, 3]

    def setup(self, E, k):
        return dict(self=_stack(E, k), X=E.nd("X", (E.size("n", 0), E.size("d", 1))))

    def old(self, E, a):
        return dict(tl=len(E.trace), X=a.X.snapshot())

    def ensures(self, E, a, res, old, swap=False):
        ms = a.self.fields["models"]
        tr = [t for t in E.trace[old["tl"]:] if t["op"] == "transform"]
        ok = isinstance(res, NdArr) and res.ndim == 2 and len(tr) == len(ms) and all(t["obj"] is m for t, m in zip(tr, ms))
        out = {"one_transform_per_member_in_order": z3.BoolVal(ok)}
        if ok:
            n = z(a.X.shape[0])
            conj = [z(res.shape[0]) == n]
            off = z3.IntVal(0)
            order = list(range(len(ms)))
            if swap and len(ms) > 1:
                order[0], order[1] = order[1], order[0]
            for i in order:
                st = tr[i]["state"]
                w = models.widthF["transform"](st)
                o = off
                conj.append(E.forall_range([(0, n), (0, w)], lambda r, c, st=st, o=o: res.get(r, o + c) == models.out2F["transform"](
                    st, models.row_of(E, old["X"], r), c)))
                off = off + w
            conj.append(z(res.shape[1]) == off)
            out["column_concatenation_of_the_members_outputs"] = z3.And(*conj)
        return out

    canaries = {"members_swapped": lambda E, a, res, old: StackingTransform().ensures(E, a, res, old, swap=True).get(
        "column_concatenation_of_the_members_outputs", z3.BoolVal(True)) if len(a.self.fields["models"]) > 1 else z3.BoolVal(True)}


@contract(SK + "sklearn_base_transform_stacking.py::SkBaseTransformStacking.fit", "C15")
class StackingFit(Contract):
    variants = [1, 3]

    def setup(self, E, k):
        n = E.size("n", 1)
        return dict(self=_stack(E, k), X=E.nd("X", (n, E.size("d", 1))), y=E.nd("y", (n,)))

    def old(self, E, a):
        return dict(tl=len(E.trace))

    def ensures(self, E, a, res, old):
        ms = a.self.fields["models"]
        fits = [t for t in E.trace[old["tl"]:] if t["op"] == "fit"]
        return {"returns_self": z3.BoolVal(res is a.self),
                "each_member_fitted_once_with_the_same_arguments": z3.BoolVal(
                    len(fits) == len(ms) and all(t["obj"] is m and t["X"] is a.X and t["y"] is a.y for t, m in zip(fits, ms)))}


@contract(MM + "transfer_transformer.py::TransferTransformer.transform", "C15")
@query_frame("self")
class TransferTransform(Contract):
    variants = ["predict", "predict_proba", "decision_function", "transform"]

    def setup(self, E, v):
        est = models.new_estimator(E, "wrapped", methods=ALLM, fitted=True)
        s = E.new_obj(MM + "transfer_transformer.py::TransferTransformer", dict(estimator=est, method=v, copy_estimator=True, trainable=False))
        s.fields["estimator_"] = models.new_estimator(E, "copy", methods=ALLM, fitted=True)
        return dict(self=s, X=E.nd("X", (E.size("n", 0), E.size("d", 1))), _v=v)

    def old(self, E, a):
        return dict(tl=len(E.trace))

    def ensures(self, E, a, res, old):
        tr = [t for t in E.trace[old["tl"]:] if t["op"] in ALLM]
        out = {"exactly_the_chosen_method_of_the_fitted_copy_on_X": z3.BoolVal(
            len(tr) == 1 and tr[0]["op"] == a._v and tr[0]["obj"] is a.self.fields["estimator_"] and tr[0]["X"] is a.X)}
        if len(tr) == 1 and isinstance(res, NdArr):
            st = tr[0]["state"]
            n = z(a.X.shape[0])
            if a._v == "predict":
                out["returns_that_output_unchanged"] = z3.And(z3.BoolVal(res.ndim == 1), E.forall_range(
                    [(0, n)], lambda r: res.get(r) == models.predF(st, models.row_of(E, a.X, r))))
            else:
                out["returns_that_output_unchanged"] = z3.And(z3.BoolVal(res.ndim == 2), E.forall_range(
                    [(0, n), (0, z(res.shape[1]))], lambda r, c: res.get(r, c) == models.out2F[a._v](st, models.row_of(E, a.X, r), c)))
        return out


class TransferFit(_c02.TransferFit):
    """the C02 frame contract, read for C15: frozen unless trainable, the original never fitted under copy_estimator"""

    def ensures(self, E, a, res, old):
        s = a.self
        out = {"returns_self": z3.BoolVal(res is s)}
        e_ = s.fields.get("estimator_")
        if s.fields["copy_estimator"]:
            out["estimator__is_a_fitted_copy_not_the_original"] = z3.BoolVal(
                isinstance(e_, Obj) and e_ is not s.fields["estimator"] and (e_.fields.get("$copy_of") is s.fields["estimator"]
                                                                             or e_.fields.get("$clone_of") is s.fields["estimator"])
                and bool(e_.fields.get("$fitted"))
                and (s.fields["trainable"] or z3.eq(e_.fields["$state"], s.fields["estimator"].fields["$state"])))   # the copy carries the fitted state
        else:
            out["estimator__is_the_given_object"] = z3.BoolVal(e_ is s.fields["estimator"])
        fits = [t for t in E.trace[old["tl"]:] if t["op"] == "fit"]
        if s.fields["trainable"]:
            fp = s.fields["estimator"].fields["$fit_params"]
            ok = len(fits) == 1 and fits[0]["obj"] is e_ and fits[0]["X"] is a.X
            if ok and "y" in fp:
                ok = fits[0]["y"] is a.y
            if ok and "sample_weight" in fp:
                ok = fits[0]["w"] is a.sample_weight
            out["trainable_fits_the_copy_once_with_the_arguments_its_fit_accepts"] = z3.BoolVal(ok)
        return out


contract(_c02.TransferFit.key, "C15")(TransferFit)

META = dict(
    level="proof", assumptions=["A1", "A2", "A6", "A7", "A9"],
    trusted=["estimator protocol (row-wise deterministic outputs of fitted state and row; fit returns the receiver)",
             "clone_with_fitted_parameters returns a distinct object with the same fitted state (assumed here; see C04)",
             "inspect.signature(est.fit).parameters lists the names the wrapped fit accepts"],
    not_applicable=["'fit never changes the wrapped estimator's predictions': follows from no fit call reaching it (proved) plus determinism of the "
                    "estimator (assumed); exercised by the bounded stand-in"],
)
