"""C18 - correlation and comparable-score metrics are well defined."""
import z3
from pyvc.api import Contract, contract
from pyvc.values import Obj, NdArr, Opaque, z
from pyvc import models
from pyvc.engine import PyFn, ExternFn
from pyvc.npmodel import arr_map

M = "mlinsights/metrics/"
fF = z3.Function("user_tr", z3.RealSort(), z3.RealSort())
gF = z3.Function("user_inv_tr", z3.RealSort(), z3.RealSort())


def user_fn(F):
    return PyFn(lambda E, a: arr_map(E, lambda v: F(v), [a], "real"), "user-callable")


def _apply_spec(E, kind, F, v):
    if kind == "log":
        return E.registry.logF(v)
    if kind == "exp":
        return E.registry.expF(v)
    if kind == "callable":
        return F(v)
    return v


KINDS = ["log", "exp", "callable", "none"]


@contract(M + "scoring_metrics.py::r2_score_comparable", "C18")
class R2Comparable(Contract):
    variants = [(t, i) for t in KINDS + ["bad-name", "not-callable"] for i in KINDS]

    def setup(self, E, v):
        t, i = v
        n = E.size("n", 1)
        val = lambda k, F: {"log": "log", "exp": "exp", "callable": user_fn(F), "none": None, "bad-name": "sqrt", "not-callable": 5}[k]
        return dict(y_true=E.nd("y", (n,)), y_pred=E.nd("p", (n,)), sample_weight=E.nd("w", (n,)), multioutput="uniform_average",
                    tr=val(t, fF), inv_tr=val(i, gF), _t=t, _i=i)

    def old(self, E, a):
        return dict(tl=len(E.trace), y=a.y_true.snapshot(), p=a.y_pred.snapshot())

    def signals(self, E, a, exc, old):
        if a._t in ("bad-name", "not-callable"):
            return {"non_callable_refused_with_TypeError": z3.BoolVal(exc == "TypeError")}
        if a._t == "none" and a._i == "none":
            return {"refused_when_both_missing": z3.BoolVal(exc == "ValueError")}
        return None

    def ensures(self, E, a, res, old, swap=False):
        if a._t in ("bad-name", "not-callable") or (a._t == "none" and a._i == "none"):
            return {"must_be_refused": z3.BoolVal(False)}
        calls = [t for t in E.trace[old["tl"]:] if t["op"] == "r2_score"]
        out = {"exactly_one_r2_score_call_whose_value_is_returned": z3.BoolVal(len(calls) == 1 and calls[0]["result"] is res)}
        if len(calls) != 1:
            return out
        c = calls[0]
        n = z(a.y_true.shape[0])
        yt, yp = c["y_true"], c["y_pred"]
        ok = isinstance(yt, NdArr) and isinstance(yp, NdArr)
        out["arrays_passed"] = z3.BoolVal(ok)
        if ok:
            kt, ki = (a._i, a._t) if swap else (a._t, a._i)
            out["true_target_goes_through_tr"] = z3.And(z(yt.shape[0]) == n, E.forall_range(
                [(0, n)], lambda r: yt.get(r) == _apply_spec(E, kt, fF, old["y"].get(r))))
            out["prediction_goes_through_inv_tr"] = z3.And(z(yp.shape[0]) == n, E.forall_range(
                [(0, n)], lambda r: yp.get(r) == _apply_spec(E, ki, gF, old["p"].get(r))))
        out["weights_and_multioutput_passed_on"] = z3.BoolVal(
            c["kwargs"].get("sample_weight") is a.sample_weight and c["kwargs"].get("multioutput") == "uniform_average")
        return out

    canaries = {"tr_and_inv_tr_swapped": lambda E, a, res, old: R2Comparable().ensures(E, a, res, old, swap=True).get(
        "true_target_goes_through_tr", z3.BoolVal(True))}


def _mat(v):
    """the matrix of a table: the array itself, or the values of a (numeric) data frame"""
    return v.fields["$matrix"] if isinstance(v, Obj) and v.tag == "DataFrame" else v


@contract(M + "correlations.py::non_linear_correlations", "C18")
class NonLinear(Contract):
    """both branches: a numpy array, and a pandas DataFrame (the accumulators are then frames written through .iloc - pandas modelled
    as a labelled matrix, pyvc/pdmodel.py)"""
    variants = [(mm, fr) for mm in (True, False) for fr in (False, True)]
    max_paths = 20000

    def setup(self, E, v):
        minmax, frame = v
        n, d = E.size("n", 2), E.size("d", 1)
        model = models.new_estimator(E, "model", methods=("fit", "predict", "get_params", "set_params"))
        data = E.nd("df", (n, d))
        if frame:
            from pyvc.values import Opaque
            labels = Opaque(z3.Const("column_labels", z3.DeclareSort("Labels")), "labels")
            data = E.registry.numeric_frame(data, labels, Opaque(z3.Const("row_labels", z3.DeclareSort("Labels")), "labels"))
        return dict(df=data, model=model, draws=E.size("draws", 1), minmax=minmax, _frame=frame)

    def old(self, E, a):
        return dict(w=_mat(a.df).cell.writes, ev=len(a.model.events), fev=len(a.df.events) if isinstance(a.df, Obj) else 0)

    @staticmethod
    def _cells(E, L, done):
        """done(i', j') -> Bool: the cell already received the contribution of the current draw"""
        cor = _mat(L["cor"])
        d = z(cor.shape[0])
        k = z(L["k"])
        out = {"square": z3.And(z(cor.shape[0]) == z(_mat(L.local("df")).shape[1]), z(cor.shape[1]) == z(_mat(L.local("df")).shape[1]))}
        cnt = lambda i, j: k + z3.If(done(i, j), 1, 0)
        arrs = [cor] + ([_mat(L["mini"]), _mat(L["maxi"])] if L["minmax"] else [])
        for nm, m in zip(("sum", "min", "max"), arrs):          # one quantifier per matrix: each is its own trigger
            out["no_entry_of_the_%s_is_nan" % nm] = E.forall_range([(0, d), (0, d)], lambda i, j, m=m: _not_nan(m, i, j))
        out["sum_between_0_and_number_of_draws"] = E.forall_range(
            [(0, d), (0, d)], lambda i, j: z3.And(cor.get(i, j) >= 0, cor.get(i, j) <= z3.ToReal(cnt(i, j))))
        if L["minmax"]:
            mini, maxi = _mat(L["mini"]), _mat(L["maxi"])
            out["min_max_shapes"] = z3.And(z(mini.shape[0]) == d, z(mini.shape[1]) == d, z(maxi.shape[0]) == d, z(maxi.shape[1]) == d)
            out["min_below_max_in_unit_interval"] = E.forall_range(
                [(0, d), (0, d)], lambda i, j: z3.Implies(cnt(i, j) > 0, z3.And(
                    mini.get(i, j) >= 0, mini.get(i, j) <= maxi.get(i, j), maxi.get(i, j) <= 1)))
            out["sum_between_count_times_min_and_count_times_max"] = E.forall_range(
                [(0, d), (0, d)], lambda i, j: z3.Implies(cnt(i, j) > 0, z3.And(
                    z3.ToReal(cnt(i, j)) * mini.get(i, j) <= cor.get(i, j), cor.get(i, j) <= z3.ToReal(cnt(i, j)) * maxi.get(i, j))))
        return out

    @staticmethod
    def _inv_k(E, L):
        fake = type("L", (), {})()
        inv = NonLinear._cells(E, _LK(L, L.i), lambda i, j: z3.BoolVal(False))
        return inv

    @staticmethod
    def _inv_i(E, L):
        return NonLinear._cells(E, L, lambda i, j: i < L.i)

    @staticmethod
    def _inv_j(E, L):
        ii = z(L["i"])
        out = NonLinear._cells(E, L, lambda i, j: z3.Or(i < ii, z3.And(i == ii, j < L.i)))
        # every coefficient is computed with ITS OWN copy of the model: whatever was fitted since the previous evaluation of this
        # invariant (one execution of the body) is a clone made since then (ghost: position in the trace of external calls)
        tl = E.ps.get("c18_trace_mark", 0)
        since = E.trace[tl:]
        made = [t["result"] for t in since if t["op"] == "clone"]
        out["each_coefficient_is_fitted_on_a_fresh_clone_of_the_model"] = z3.BoolVal(
            all(any(t["obj"] is m for m in made) for t in since if t["op"] == "fit"))
        E.ps["c18_trace_mark"] = len(E.trace)
        return out

    loops = {0: _inv_k.__func__, 1: _inv_i.__func__, 2: _inv_j.__func__}

    def ensures(self, E, a, res, old):
        d = z(_mat(a.df).shape[1])
        out = {"input_not_modified": z3.BoolVal(_mat(a.df).cell.writes == old["w"] and (not isinstance(a.df, Obj) or len(a.df.events) == old["fev"])),
               "model_itself_never_fitted": z3.BoolVal(len(a.model.events) == old["ev"])}
        outs = list(res) if isinstance(res, tuple) else [res]
        if a._frame:
            # a data frame in, data frames out, labelled by the columns of the input on both sides
            out["frames_labelled_by_the_input_columns"] = z3.BoolVal(all(
                isinstance(m, Obj) and m.tag == "DataFrame" and m is not a.df and m.fields.get("$cols") is a.df.fields["$cols"]
                and m.fields.get("$index") is a.df.fields["$cols"] for m in outs))
        mats = [_mat(m) for m in outs]
        ok = all(isinstance(m, NdArr) and m.ndim == 2 for m in mats) and len(mats) == (3 if a.minmax else 1)
        out["matrices"] = z3.BoolVal(ok)
        if not ok:
            return out
        out["one_row_and_column_per_variable"] = z3.And(*[z3.And(z(m.shape[0]) == d, z(m.shape[1]) == d) for m in mats])
        mean = mats[0]
        out["entries_in_unit_interval"] = E.forall_range([(0, d), (0, d)], lambda i, j: z3.And(mean.get(i, j) >= 0, mean.get(i, j) <= 1))
        # also for tables with constant columns, whose Pearson correlations (the matrix the accumulators are shaped after) are NaN
        out["no_entry_is_nan"] = E.forall_range([(0, d), (0, d)], lambda i, j: z3.And(*[_not_nan(m, i, j) for m in mats]))
        if a.minmax:
            mini, maxi = mats[1], mats[2]
            out["min_and_max_in_unit_interval"] = E.forall_range([(0, d), (0, d)], lambda i, j: z3.And(
                mini.get(i, j) >= 0, mini.get(i, j) <= maxi.get(i, j), maxi.get(i, j) <= 1))
            out["min_le_mean_le_max"] = E.forall_range([(0, d), (0, d)], lambda i, j: z3.And(
                mini.get(i, j) <= mean.get(i, j), mean.get(i, j) <= maxi.get(i, j)))
        return out

    canaries = {"entries_below_one_half": lambda E, a, res, old: E.forall_range(
        [(0, z(_mat(a.df).shape[1])), (0, z(_mat(a.df).shape[1]))],
        lambda i, j: _mat(res[0] if isinstance(res, tuple) else res).get(i, j) <= z3.RealVal("1/2"))}


def _not_nan(m, i, j):
    return z3.Not(m.isnan(i, j)) if m.cell.nan is not None else z3.BoolVal(True)


class _LK:
    """view of a loop context in which the python variable k reads as the invariant's index"""

    def __init__(self, L, k):
        self.L, self.k = L, k

    def __getitem__(self, name):
        if name == "k":
            return self.k
        return self.L[name]

    def local(self, name):
        return self.L.local(name)


META = dict(
    level="proof", lean_files=["lemmas/Sums.lean"], assumptions=["A1", "A2", "A6", "A7", "A9"],
    trusted=["r2_score is opaque (its value is returned unchanged); numpy.log/exp are element-wise ln/exp",
             "sklearn.preprocessing.scale returns a new array; train_test_split(test_size=0.5) returns two non-empty new arrays for n>=2; "
             "numpy.var >= 0; sqrt maps [0,1] into [0,1]; clone returns a fresh estimator",
             "pandas (pyvc/pdmodel.py): a numeric DataFrame is a labelled matrix - .iloc[i, j] / .iloc[:, :] read and write its cells, .corr() is a square frame "
             "labelled by the columns whose entries may be NaN, .copy() copies the values, frame / number divides the values and keeps the labels; "
             "numpy.corrcoef entries may be NaN (constant columns)"],
    not_applicable=["unit diagonal for a model able to learn the identity: depends on the learner (not a property of this code)",
                    "DataFrame/array equality under the same seed (a relation between two runs with the same random split): bounded stand-in. The "
                    "DataFrame branch itself is proved like the array branch (accumulators are frames written through .iloc; results are new frames "
                    "labelled by the input's columns on both sides)"],
)
