"""C14 - traceable vectorizers equal scikit-learn's, with n-grams kept as token tuples.

NGramsMixin._word_ngrams is verified against scikit-learn's own _VectorizerMixin._word_ngrams: the SAME executor runs the source of
both (mlinsights from /repo, scikit-learn from the installed package) on the same symbolic token list and stop-word set; the oracle is
therefore the dependency itself, not a hand-written spec.  Bounded in the number of tokens (0..4) and stop words (0..2) and in
ngram_range (min<=max<=3); complete in the token strings (arbitrary, possibly equal, possibly stop words)."""
import os
import sys
import z3
from pyvc.api import Contract, contract
from contracts._frames import query_frame
from pyvc.values import Obj, z, is_sym
from pyvc.frontend import Repo

F = "mlinsights/mlmodel/sklearn_text.py"
_SK = None


def sklearn_word_ngrams():
    global _SK
    if _SK is None:
        root = None
        for p in ("/venv/lib/python3.12/site-packages",) + tuple(sys.path):
            if p and os.path.exists(os.path.join(p, "sklearn", "feature_extraction", "text.py")):
                root = p
                break
        _SK = Repo(root).lookup("sklearn/feature_extraction/text.py::_VectorizerMixin._word_ngrams")
    return _SK


RANGES = [(1, 1), (1, 2), (2, 2), (1, 3), (2, 3), (3, 3)]


@contract(F + "::NGramsMixin._word_ngrams", "C14")
@query_frame("self")
class WordNgrams(Contract):
    variants = [(L, S, r) for L in range(0, 5) for S in (None, 1, 2) for r in RANGES if not (S == 2 and L > 3)]
    max_paths = 20000

    def setup(self, E, v):
        L, S, rng = v
        tokens = [E.str("tok%d" % i) for i in range(L)]
        for t in tokens:
            E.assume(z3.Length(t) >= 1)
            E.assume(z3.Not(z3.Contains(t, z3.StringVal(" "))))     # default tokenizer: tokens contain no white space
        stop = None if S is None else [E.str("stop%d" % i) for i in range(S)]
        s = E.new_obj(F + "::NGramsMixin", dict(ngram_range=rng))
        return dict(self=s, tokens=list(tokens), stop_words=stop, _tokens=list(tokens), _stop=stop, _rng=rng)

    def ensures(self, E, a, res, old, drop=False):
        sk = sklearn_word_ngrams()
        them_self = Obj("sklearn-vectorizer", dict(ngram_range=a._rng))
        theirs = E.call_repo_function(sk, [list(a._tokens), None if a._stop is None else list(a._stop)], {}, self_obj=them_self)
        ok = isinstance(res, list) and isinstance(theirs, list)
        out = {"lists": z3.BoolVal(ok)}
        if not ok:
            return out
        ours = res[:-1] if drop and res else res
        out["same_number_of_ngrams_as_scikit_learn"] = z3.BoolVal(len(ours) == len(theirs))
        flat = all(isinstance(g, tuple) and all(isinstance(t, str) or (is_sym(t) and z3.is_string(t)) for t in g) for g in ours)
        out["every_ngram_is_a_flat_tuple_of_tokens"] = z3.BoolVal(flat)
        if len(ours) == len(theirs) and flat:
            conj = []
            for g, t in zip(ours, theirs):
                parts = []
                for i, tok in enumerate(g):
                    if i:
                        parts.append(z3.StringVal(" "))
                    parts.append(z(tok))
                joined = z3.Concat(*parts) if len(parts) > 1 else (parts[0] if parts else z3.StringVal(""))
                conj.append(joined == z(t))
            out["space_joined_tuple_is_scikit_learns_ngram_in_the_same_position"] = z3.And(*conj) if conj else z3.BoolVal(True)
        return out

    canaries = {"one_ngram_less": lambda E, a, res, old: WordNgrams().ensures(E, a, res, old, drop=True)["same_number_of_ngrams_as_scikit_learn"]}


META = dict(
    level="proof", assumptions=["A2", "A4", "A5", "A6", "A7"],
    trusted=["scikit-learn's _VectorizerMixin._word_ngrams (its source is executed, not modelled) is the oracle",
             "the rest of CountVectorizer / TfidfVectorizer treats tokens as opaque hashables and orders features by sorted(); tuple order and "
             "joined-string order agree when no token contains a character <= ' ' (stated, not proved)"],
    not_applicable=["bounded in the number of tokens (<=4), stop words (<=2) and ngram_range (<=3), complete in the strings; the document-term matrices and "
                    "vocabulary_ of the full vectorizers: bounded stand-in against scikit-learn"],
)


# the two vectorizer classes only re-route _word_ngrams to the mixin (everything else is inherited from scikit-learn)
for _cls in ("TraceableCountVectorizer", "TraceableTfidfVectorizer"):
    def _mk(cls):
        class Delegates(Contract):
            """%s._word_ngrams is NGramsMixin._word_ngrams on the same tokens and stop words (MRO: the scikit-learn base would win otherwise)"""
            variants = [(L, S, ng) for ng in ((1, 1), (1, 2), (2, 3)) for L, S in ((2, None), (3, 1))]

            def setup(self, E, v):
                L, S, ng = v
                tokens = [E.str("tok%d" % i) for i in range(L)]
                stop = None if S is None else [E.str("stop%d" % i) for i in range(S)]
                s = E.new_obj(F + "::" + cls, dict(ngram_range=ng))
                return dict(self=s, tokens=tokens, stop_words=stop)

            def ensures(self, E, a, res, old):
                mixin = E.repo.lookup(F + "::NGramsMixin._word_ngrams")
                from pyvc.engine import Closure
                exp = E.call_closure(Closure(mixin, None, a.self), [], dict(tokens=a.tokens, stop_words=a.stop_words), None)
                ok = isinstance(res, list) and isinstance(exp, list) and len(res) == len(exp)
                out = {"same_number_of_ngrams_as_the_mixin": z3.BoolVal(ok)}
                if ok:
                    out["same_ngrams_as_the_mixin"] = z3.And(*[
                        z3.And(z3.BoolVal(isinstance(x, tuple) and isinstance(y, tuple) and len(x) == len(y)), *[z(u) == z(w) for u, w in zip(x, y)])
                        for x, y in zip(res, exp)]) if res else z3.BoolVal(True)
                return out
        Delegates.__name__ = "Delegates_" + cls
        Delegates.__doc__ = Delegates.__doc__ % cls
        return contract(F + "::" + cls + "._word_ngrams", "C14")(Delegates)
    _mk(_cls)
