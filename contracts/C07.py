"""C07 - ConstraintKMeans produces clusters of equal size.

What is proved here is the quota bookkeeping around the association step and the driver; the association step itself
(_constraint_association_distance / _gain: three nested loops over argsort orders, randomised swaps) is an ASSUMED contract
whose size postcondition is exercised by the bounded stand-in."""
import z3
from pyvc.api import Contract, contract
from pyvc.values import Obj, NdArr, z
from pyvc import models

K = "mlinsights/mlmodel/_kmeans_constraint_.py"
C = "mlinsights/mlmodel/kmeans_constraint.py"


@contract(K + "::_constraint_association", "C07", assumed=True)
class Association(Contract):
    """ASSUMED: fills labels (every point in exactly one of the k clusters) and distances_close; the quota it is given must be the
    arithmetic of the size constraint - that part is an obligation at every call site"""

    def requires(self, E, a):
        n, k = z(a.X.shape[0]), z(a.centers.shape[0])
        lim, lo = z(a.limit), z(a.leftover)
        return {"quota_is_floor_of_n_over_k": z3.And(k >= 1, lim * k <= n, n < (lim + 1) * k),
                "leftover_is_n_minus_k_times_quota": z3.And(lo == n - lim * k, lo >= 0, lo < k),
                "one_counter_and_flag_per_cluster": z3.And(z(a.counters.shape[0]) == k, z(a.leftclose.shape[0]) == k),
                "one_label_and_distance_per_point": z3.And(z(a.labels.shape[0]) == n, z(a.distances_close.shape[0]) == n),
                "centres_have_the_data_dimension": z(a.centers.shape[1]) == z(a.X.shape[1])}

    def result(self, E, a, old):
        n, k = a.X.shape[0], a.centers.shape[0]
        for arr in (a.labels, a.counters, a.leftclose, a.distances_close):
            E.note_write(arr)
            arr.cell.term = z3.Const(models.fresh_name(arr.cell.name), arr.cell.term.sort())
        i = z3.Int(models.fresh_name("i"))
        E.assume(z3.ForAll([i], z3.Implies(z3.And(i >= 0, i < z(n)), z3.And(a.labels.get(i) >= 0, a.labels.get(i) < z(k)))))
        E.trace.append(dict(op="_constraint_association", labels=a.labels, strategy=a.strategy, limit=a.limit, leftover=a.leftover, X=a.X, centers=a.centers))
        return NdArr.fresh("distances", (n, k), "real")


for _name in ("_centers_dense", "_centers_sparse"):
    @contract("mlinsights/mlmodel/_kmeans_022.py::" + _name, "C07", assumed=True)
    class _Centers(Contract):
        def result(self, E, a, old):
            return NdArr.fresh("centers", (a.n_clusters, a.X.shape[1]), "real")


@contract("mlinsights/mlmodel/_kmeans_022.py::_labels_inertia_skl", "C07", assumed=True)
class _Inertia(Contract):
    def result(self, E, a, old):
        return (NdArr.fresh("lab", (a.X.shape[0],), "int"), E.real("inertia"))


@contract(K + "::constraint_predictions", "C07")
class Predictions(Contract):
    variants = ["distance_p", "gain_p"]

    def setup(self, E, v):
        n, k, d = E.size("n", 1), E.size("k", 1), E.size("d", 1)
        return dict(X=E.nd("X", (n, d)), centers=E.nd("centers", (k, d)), strategy=v)

    def requires(self, E, a):
        return {"n>=k": z(a.X.shape[0]) >= z(a.centers.shape[0])}

    def old(self, E, a):
        return dict(tl=len(E.trace), w=a.X.cell.writes)

    def ensures(self, E, a, res, old):
        calls = [t for t in E.trace[old["tl"]:] if t["op"] == "_constraint_association"]
        ok = isinstance(res, tuple) and len(res) == 3 and len(calls) == 1
        out = {"exactly_one_association_over_the_batch": z3.BoolVal(ok)}
        if ok:
            labels = res[0]
            out["returns_the_labels_of_that_association_one_per_row"] = z3.And(
                z3.BoolVal(labels is calls[0]["labels"] and calls[0]["X"] is a.X and calls[0]["centers"] is a.centers and calls[0]["strategy"] == a.strategy),
                z(labels.shape[0]) == z(a.X.shape[0]))
            out["batch_not_written"] = z3.BoolVal(a.X.cell.writes == old["w"])
        return out


@contract(K + "::constraint_kmeans", "C07")
class Driver(Contract):
    variants = [(s, hw) for s in ("distance", "gain") for hw in (False, True)]
    loop_kinds = {0: {"best_inertia": "real", "best_iter": "int", "best_centers": ("nd", 2), "best_labels": ("nd", 1, "int"), "inertia": "real", "_": ("nd", 1, "int")}}
    max_paths = 20000

    def setup(self, E, v):
        strategy, has_w = v
        n, k, d = E.size("n", 1), E.size("k", 1), E.size("d", 1)
        lab = E.nd("labels", (n,), "int")
        lab.cell.dtype_name = "int32"
        return dict(X=E.nd("X", (n, d)), labels=lab, sample_weight=E.nd("w", (n,)) if has_w else None,
                    centers=E.nd("centers", (k, d)), inertia=E.real("inertia0"), iter=E.int("iter0"), max_iter=E.int("max_iter"),
                    strategy=strategy, verbose=0, state=None, learning_rate=1, history=False)

    def requires(self, E, a):
        # what ConstraintKMeans.fit establishes: the initial k-means used at most half of the budget
        return {"n>=k": z(a.X.shape[0]) >= z(a.centers.shape[0]), "budget_left": z3.And(z(a.iter) >= 0, z(a.iter) < z(a.max_iter))}

    def old(self, E, a):
        return dict(tl=len(E.trace), w=a.X.cell.writes)

    @staticmethod
    def _inv(E, L):
        out = {"iterations_within_budget": z3.And(z(L["iter"]) >= 0, z(L["iter"]) <= z(L["max_iter"]))}
        bi, bn = L["best_iter"], L["best_inertia"]
        out["best_so_far_is_all_or_nothing"] = z3.BoolVal((bi is None) == (bn is None))
        if bi is None:
            out["nothing_recorded_only_before_the_first_iteration"] = z(L["iter"]) == z(L.old("iter"))
        if bi is not None:
            from pyvc.engine import Unbound
            try:
                bl = L["best_labels"]
            except KeyError:
                bl = None
            ok = isinstance(bl, NdArr)
            out["best_labels_one_per_point"] = z(bl.shape[0]) == z(L["X"].shape[0]) if ok else z3.BoolVal(False)
            out["best_iteration_is_a_past_iteration"] = z3.And(z(bi) >= 1, z(bi) <= z(L["iter"]))
        return out
    loops = {0: _inv.__func__}
    loop_ignore = {0: ["all_centers"]}      # only appended to under history=True (False in every variant)

    def ensures(self, E, a, res, old):
        ok = isinstance(res, tuple) and len(res) == 6
        out = {"six_results": z3.BoolVal(ok)}
        if ok:
            labels, centers, inertia, weights, it, allc = res
            out["n_iter_does_not_exceed_max_iter"] = z3.And(z(it) >= 0, z(it) <= z(a.max_iter))
            out["one_label_per_training_point"] = z3.BoolVal(isinstance(labels, NdArr)) if not isinstance(labels, NdArr) else z(labels.shape[0]) == z(a.X.shape[0])
            out["training_data_not_written"] = z3.BoolVal(a.X.cell.writes == old["w"])
            calls = [t for t in E.trace[old["tl"]:] if t["op"] == "_constraint_association"]
            out["every_association_uses_the_callers_strategy"] = z3.BoolVal(all(t["strategy"] == a.strategy for t in calls) and len(calls) >= 1)
        return out


Driver.canaries = {"stops_strictly_before_max_iter": lambda E, a, res, old: z(res[4]) < z(a.max_iter)}


def _ckm(E, balanced, weights_none=True):
    f = dict(n_clusters=E.size("k", 1), init="k-means++", n_init=10, max_iter=E.size("max_iter", 1), tol=E.real("tol"), verbose=0,
             random_state=None, copy_x=True, algorithm="lloyd", balanced_predictions=balanced, strategy="distance", kmeans0=True,
             history=False, learning_rate=1)
    s = E.new_obj(C + "::ConstraintKMeans", f)
    k, d = s.fields["n_clusters"], E.size("d", 1)
    s.fields["cluster_centers_"] = E.nd("centers", (k, d))
    s.fields["weights_"] = None if weights_none else E.nd("weights", (k,))
    return s


@contract(C + "::ConstraintKMeans.predict", "C07")
class Predict(Contract):
    variants = [(True, True), (False, True), (False, False)]

    def setup(self, E, v):
        balanced, wnone = v
        s = _ckm(E, balanced, wnone)
        return dict(self=s, X=E.nd("X", (E.size("n", 1), s.fields["cluster_centers_"].shape[1])), _v=v)

    def requires(self, E, a):
        return {"n>=k": z(a.X.shape[0]) >= z(a.self.fields["n_clusters"])}

    def old(self, E, a):
        return dict(tl=len(E.trace))

    def ensures(self, E, a, res, old):
        tr = E.trace[old["tl"]:]
        assoc = [t for t in tr if t["op"] == "_constraint_association"]
        near = [t for t in tr if t["op"] == "KMeans.predict"]
        if a._v[0]:
            return {"balanced_predictions_come_from_the_balanced_association_of_the_batch": z3.BoolVal(
                len(assoc) == 1 and not near and res is assoc[0]["labels"] and assoc[0]["strategy"] == "distance_p"
                and assoc[0]["centers"] is a.self.fields["cluster_centers_"] and assoc[0]["X"] is a.X)}
        return {"without_balanced_predictions_the_nearest_centre": z3.BoolVal(len(near) == 1 and not assoc and res is near[0]["result"] and near[0]["X"] is a.X)}


META = dict(
    level="proof", assumptions=["A1", "A2", "A3", "A6", "A7", "A9"],
    trusted=["ASSUMED: _constraint_association (strategies distance and gain) assigns every point to one of the k clusters given a quota; its size "
             "postcondition (every cluster has floor(n/k) or ceil(n/k) points) is NOT proved: bounded stand-in, with a known finding for 'gain'",
             "KMeans.predict returns the nearest centre; _centers_dense/_sparse and _labels_inertia_skl are opaque"],
    not_applicable=["the size constraint itself (counting invariants over three nested loops with randomised order and swaps): bounded stand-in over all "
                    "k <= n <= 14; centres finite (floating point)"],
)
