"""C07 - ConstraintKMeans produces clusters of equal size.

Proved: the association of strategy 'distance' (_constraint_association_distance with its three nested loops, _randomize_index,
_switch_clusters) gives every cluster floor(n/k) or floor(n/k)+1 points - counting invariants over the ghost functions cnt / sumI -
and the property is carried by contracts through the dispatcher, constraint_predictions, constraint_kmeans (best labels),
ConstraintKMeans.fit (labels_) and ConstraintKMeans.predict (balanced predictions).

Strategy 'gain' (_constraint_association_gain: counters, randomised quota repair, moves, swaps through the transfer lists) is PROVED to keep
"the counters count the labels" through every move and swap, so that on normal return - the function ends with an assertion on its counters -
every cluster holds at least floor(n/k) and at most floor(n/k) + (n mod k) points: the property when n mod k <= 1.  For n mod k >= 2 the
upper bound is all that holds (known finding), and the final assertion can fire (second known finding); the bounded stand-in exercises both."""
import z3
from pyvc.api import Contract, contract
from pyvc.values import Obj, NdArr, z
from pyvc import models, counting, permmodel

K = "mlinsights/mlmodel/_kmeans_constraint_.py"
C = "mlinsights/mlmodel/kmeans_constraint.py"


# ----------------------------------------------------------------------------------------------------------------------
# the association of strategy 'distance': proved (counting invariants over ghost cnt / sumI, pyvc/counting.py)
def _fa(n, body, name="p"):
    i = z3.Int(models.fresh_name(name))
    return z3.ForAll([i], z3.Implies(z3.And(i >= 0, i < z(n)), body(i)))


def _between(arr, lo, hi, n=None):
    return _fa(n if n is not None else arr.shape[0], lambda i: z3.And(arr.get(i) >= z(lo), arr.get(i) < z(hi)))


def _cnt_is(arr, n, fn):
    """forall q. cnt(arr, q, n) == fn(q)"""
    q = z3.Int(models.fresh_name("q"))
    return z3.ForAll([q], counting.cnt(arr, q, n) == fn(q), patterns=[counting.cnt(arr, q, n)])


def _sizes(labels, n, k, lim):
    """THE PROPERTY: every cluster 0..k-1 holds floor(n/k) or floor(n/k)+1 of the n labels"""
    q = z3.Int(models.fresh_name("q"))
    return z3.ForAll([q], z3.Implies(z3.And(q >= 0, q < z(k)), z3.And(counting.cnt(labels, q, n) >= z(lim), counting.cnt(labels, q, n) <= z(lim) + 1)),
                     patterns=[counting.cnt(labels, q, n)])


def _balanced(labels, n, k, lim):
    """the property as stated: lim is floor(n/k) and every cluster holds lim or lim+1 of the n points"""
    n, k, lim = z(n), z(k), z(lim)
    return {"the_quota_is_floor_of_n_over_k": z3.And(lim * k <= n, n < (lim + 1) * k),
            "every_point_gets_a_cluster": _between(labels, 0, k),
            "every_cluster_has_floor_or_ceil_of_n_over_k_points": _sizes(labels, n, k, lim)}


def _quota(a):
    n, k = z(a.X.shape[0]), z(a.centers.shape[0])
    lim, lo = z(a.limit), z(a.leftover)
    from pyvc.values import is_int_like
    return {"quota_and_leftover_are_integers": z3.BoolVal(is_int_like(a.limit) and is_int_like(a.leftover)),
            "quota_is_floor_of_n_over_k": z3.And(k >= 1, lim * k <= n, n < (lim + 1) * k),
            "leftover_is_n_minus_k_times_quota": z3.And(lo == n - lim * k, lo >= 0, lo < k),
            "one_counter_and_flag_per_cluster": z3.And(z(a.counters.shape[0]) == k, z(a.leftclose.shape[0]) == k),
            "one_label_and_distance_per_point": z3.And(z(a.labels.shape[0]) == n, z(a.distances_close.shape[0]) == n),
            "centres_have_the_data_dimension": z(a.centers.shape[1]) == z(a.X.shape[1])}


@contract(K + "::_randomize_index", "C07")
class Randomize(Contract):
    """swaps neighbours of a permutation: it stays a permutation (range and injectivity)"""

    def setup(self, E, v):
        n = E.size("n", 1)
        return dict(index=E.nd("index", (n,), "int"), weights=E.nd("weights", (n,)))

    def requires(self, E, a):
        r, i = permmodel.is_perm_facts(a.index)
        return {"index_in_range": r, "index_injective": i, "one_weight_per_index": z3.And(z(a.weights.shape[0]) == z(a.index.shape[0]), z(a.index.shape[0]) >= 1)}

    @staticmethod
    def _inv(E, L):
        r, i = permmodel.is_perm_facts(L["index"])
        return {"index_in_range": r, "index_injective": i}
    loops = {0: _inv.__func__}

    def result(self, E, a, old):
        for arr in (a.index, a.weights):
            E.note_write(arr)
            E._havoc_cell(arr, arr.cell.name)
        return None

    def ensures(self, E, a, res, old):
        r, i = permmodel.is_perm_facts(a.index)
        return {"returns_none": z3.BoolVal(res is None), "index_still_in_range": r, "index_still_injective": i}


@contract(K + "::_switch_clusters", "C07")
class Switch(Contract):
    """exchanges the labels of two points: the number of points per cluster does not change"""

    def setup(self, E, v):
        n, k = E.size("n", 1), E.size("k", 1)
        lab = E.nd("labels", (n,), "int")
        return dict(labels=lab, distances=E.nd("distances", (n, k)))

    def requires(self, E, a):
        counting.track(E, a.labels)
        return {"labels_are_clusters": _between(a.labels, 0, a.distances.shape[1]),
                "one_row_of_distances_per_label": z3.And(z(a.distances.shape[0]) == z(a.labels.shape[0]), z(a.labels.shape[0]) >= 1)}

    def old(self, E, a):
        return dict(l0=a.labels.snapshot())

    @staticmethod
    def _inv(E, L):
        lab, l0 = L["labels"], L.old("labels")
        n = lab.shape[0]
        return {"labels_are_clusters": _between(lab, 0, L["distances"].shape[1]),
                "cluster_sizes_unchanged": _cnt_is(lab, n, lambda q: counting.cnt(l0, q, n))}
    loops = {0: _inv.__func__, 1: _inv.__func__, 2: _inv.__func__}

    def result(self, E, a, old):
        E.note_write(a.labels)
        E._havoc_cell(a.labels, "labels")
        return None

    def ensures(self, E, a, res, old):
        n = a.labels.shape[0]
        return {"returns_none": z3.BoolVal(res is None), "labels_are_clusters": _between(a.labels, 0, a.distances.shape[1]),
                "cluster_sizes_unchanged": _cnt_is(a.labels, n, lambda q: counting.cnt(old["l0"], q, n))}


def _b(c):
    return z3.If(c, 1, 0)


def _book(E, L):
    """the bookkeeping invariant of the association (strategy 'distance'), over the live arrays"""
    lab, cnts, lc = L["labels"], L["counters"], L["leftclose"]
    n, k, lim = lab.shape[0], cnts.shape[0], z(L["limit"])
    from pyvc.engine import Unbound
    try:
        nv = L["nover"]
    except KeyError:
        nv = None
    if nv is None or isinstance(nv, Unbound):
        # the number of extras still to give is loop-carried state of the loop over the points
        return {"extras_left_plus_extras_given_is_leftover": z3.BoolVal(False)}
    nover, leftover = z(nv), z(L["leftover"])
    counting.quota_lemmas(E, cnts, lc, k, lim * z(k), lim)
    counting.all_iff(E, lab, -1, n)
    counting.all_iff(E, lc, 0, k)
    return {
        "labels_are_minus_one_or_a_cluster": _between(lab, -1, k),
        "a_cluster_is_open_below_quota_or_closed_with_one_extra": _fa(k, lambda c: z3.And(
            z3.Or(lc.get(c) == -1, lc.get(c) == 0), cnts.get(c) >= 0,
            z3.Implies(lc.get(c) == 0, cnts.get(c) == lim + 1), z3.Implies(lc.get(c) == -1, cnts.get(c) <= lim)), "c"),
        "counters_count_the_labels": z3.ForAll([(q := z3.Int(models.fresh_name("q")))], z3.Implies(
            z3.And(q >= 0, q < z(k)), cnts.get(q) == counting.cnt(lab, q, n)), patterns=[counting.cnt(lab, q, n)]),
        "assigned_points_are_counted_once": counting.sumI(cnts, k) == z(n) - counting.cnt(lab, -1, n),
        "extras_left_plus_extras_given_is_leftover": z3.And(nover >= 0, nover + counting.cnt(lc, 0, k) == leftover),
    }


@contract(K + "::_constraint_association_distance", "C07")
class Distance(Contract):
    """PROVED: the association of strategies 'distance' / 'distance_p' gives every cluster floor(n/k) or floor(n/k)+1 points"""
    variants = ["distance", "distance_p"]
    max_paths = 20000
    sequential = True

    def setup(self, E, v):
        n, k, d = E.size("n", 1), E.size("k", 1), E.size("d", 1)
        return dict(leftover=E.int("leftover"), counters=E.nd("counters", (k,), "int"), labels=E.nd("labels", (n,), "int"),
                    leftclose=E.nd("leftclose", (k,), "int"), distances_close=E.nd("distances_close", (n,)), centers=E.nd("centers", (k, d)),
                    X=E.nd("X", (n, d)), x_squared_norms=E.nd("xsn", (n,)), limit=E.int("limit"), strategy=v, state=None)

    def requires(self, E, a):
        counting.track(E, a.labels)
        counting.track(E, a.counters, want_sum=True)
        counting.track(E, a.leftclose)
        return _quota(a)

    def old(self, E, a):
        return dict(w=a.X.cell.writes, wc=a.centers.cell.writes)

    # loop 0: while labels.min() == -1  - runs exactly once: untouched state, or the finished association
    @staticmethod
    def _while(E, L):
        lab, cnts, lc = L["labels"], L["counters"], L["leftclose"]
        n, k, lim = lab.shape[0], cnts.shape[0], z(L["limit"])
        init = z3.And(_fa(n, lambda p: lab.get(p) == -1), _cnt_is(lab, n, lambda q: z3.If(q == -1, z(n), 0)),
                      _fa(k, lambda c: z3.And(cnts.get(c) == 0, lc.get(c) == -1), "c"), counting.sumI(cnts, k) == 0,
                      _cnt_is(lc, k, lambda q: z3.If(q == -1, z(k), 0)))
        done = z3.And(_between(lab, 0, k), _sizes(lab, n, k, lim))
        return {"nothing_assigned_yet_or_association_complete": z3.Or(init, done)}

    # loop 1: for ind in sorted_index
    @staticmethod
    def _points(E, L):
        out = _book(E, L)
        if len(out) == 1:
            return out
        si, lab = L["sorted_index"], L["labels"]
        pos = permmodel.inj_surj(E, si)        # ghost inverse of the visiting order (finite pigeonhole lemma)
        out["points_already_visited_are_assigned"] = _fa(lab.shape[0], lambda p: z3.Implies(pos(p) < z(L.k), lab.get(p) >= 0))
        n, k = lab.shape[0], L["counters"].shape[0]
        at_end = z(L.k) >= z(n)
        out["after_the_last_point_every_point_is_assigned"] = z3.Implies(at_end, _between(lab, 0, k))
        out["after_the_last_point_no_label_is_minus_one"] = z3.Implies(at_end, counting.cnt(lab, -1, n) == 0)
        out["after_the_last_point_all_extras_are_given"] = z3.Implies(at_end, z3.And(z(L["nover"]) == 0, _fa(k, lambda c: L["counters"].get(c) == z(L["limit"]) + _b(L["leftclose"].get(c) == 0), "c")))
        out["after_the_last_point_the_sizes_are_balanced"] = z3.Implies(at_end, _sizes(lab, n, k, L["limit"]))
        return out

    # loop 2: for c in centers_index[ind, :]  - nothing is written before the break; every centre seen so far is full
    @staticmethod
    def _centres(E, L):
        out = {"nothing_written_before_the_break": z3.And(*[L[nm].cell.term == L.old(nm).cell.term for nm in ("labels", "counters", "leftclose", "distances")],
                                                         z(L["nover"]) == z(L.old("nover")))}
        ci, cnts, lc, ind = L["centers_index"], L["counters"], L["leftclose"], L["ind"]
        lim, nover = z(L["limit"]), z(L["nover"])
        out["centres_seen_so_far_are_full"] = _fa(L.k, lambda j: z3.And(
            cnts.get(ci.get(ind, j)) >= lim, z3.Not(z3.And(nover > 0, lc.get(ci.get(ind, j)) == -1))), "j")
        # the same fact per centre, through the inverse of the row permutation (ghost of the argsort model)
        out["centres_ranked_before_this_one_are_full"] = _fa(cnts.shape[0], lambda c: z3.Implies(ci.rowpos(z(ind), c) < z(L.k), z3.And(
            cnts.get(c) >= lim, z3.Not(z3.And(nover > 0, lc.get(c) == -1)))), "c")
        return out
    loops = {0: _while.__func__, 1: _points.__func__, 2: _centres.__func__}

    def result(self, E, a, old):
        for arr in (a.labels, a.counters, a.leftclose, a.distances_close):
            E.note_write(arr)
            E._havoc_cell(arr, arr.cell.name)
        E.trace.append(dict(op="_constraint_association", labels=a.labels, strategy=a.strategy, limit=a.limit, leftover=a.leftover, X=a.X, centers=a.centers))
        return NdArr.fresh("distances", (a.X.shape[0], a.centers.shape[0]), "real")

    def ensures(self, E, a, res, old):
        n, k = a.X.shape[0], a.centers.shape[0]
        return {"every_point_gets_a_cluster": _between(a.labels, 0, k),
                "every_cluster_has_floor_or_ceil_of_n_over_k_points": _sizes(a.labels, n, k, a.limit),
                "returns_the_point_by_centre_distances": z3.BoolVal(isinstance(res, NdArr) and res.ndim == 2) if not (isinstance(res, NdArr) and res.ndim == 2)
                else z3.And(z(res.shape[0]) == z(n), z(res.shape[1]) == z(k)),
                "data_and_centres_not_written": z3.BoolVal(a.X.cell.writes == old["w"] and a.centers.cell.writes == old["wc"])}


def _gain_sizes(labels, n, k, lim, leftover):
    """what the 'gain' association guarantees on normal return: every cluster holds at least floor(n/k) points and at most floor(n/k) + (n mod k)
    - THE PROPERTY when n mod k <= 1; for n mod k >= 2 the upper bound is all there is (known finding sizes-gain-n-mod-k-ge-2)"""
    q = z3.Int(models.fresh_name("q"))
    return z3.ForAll([q], z3.Implies(z3.And(q >= 0, q < z(k)), z3.And(counting.cnt(labels, q, n) >= z(lim), counting.cnt(labels, q, n) <= z(lim) + z(leftover))),
                     patterns=[counting.cnt(labels, q, n)])


def _gain_balanced(labels, n, k, lim, leftover):
    """the guarantee of strategy 'gain' as a caller sees it; the last clause is THE PROPERTY on the part of the domain where 'gain' has it"""
    n, k, lim, lo = z(n), z(k), z(lim), z(leftover)
    return {"the_quota_is_floor_of_n_over_k": z3.And(lim * k <= n, n < (lim + 1) * k),
            "the_leftover_is_n_mod_k": lo == n - lim * k,
            "every_point_gets_a_cluster": _between(labels, 0, k),
            "every_cluster_has_at_least_floor_of_n_over_k_points_and_at_most_n_mod_k_more": _gain_sizes(labels, n, k, lim, lo),
            "every_cluster_has_floor_or_ceil_of_n_over_k_points_when_n_mod_k_is_at_most_one": z3.Implies(lo <= 1, _sizes(labels, n, k, lim))}


def _fa_pat(vs, body, pat):
    # a trigger that is not a pattern in this state (a constant array, an if-then-else inside): the solver chooses
    return counting._forall(vs, body, pat)


def _gain_book(E, L):
    """bookkeeping invariant of the 'gain' association: the counters count the labels, the transfer lists only hold points that are still
    where they were when they asked to move (or are flagged as moved)"""
    lab, cnts, flag, tr = L["labels"], L["counters"], L["distances_close"], L["transfer"]
    n, k = lab.shape[0], cnts.shape[0]
    q = z3.Int(models.fresh_name("q"))
    a, b, p = z3.Int(models.fresh_name("ta")), z3.Int(models.fresh_name("tb")), z3.Int(models.fresh_name("tp"))
    return {
        "labels_are_clusters": _between(lab, 0, k),
        "counters_count_the_labels": _fa_pat([q], z3.Implies(z3.And(q >= 0, q < z(k)), cnts.get(q) == counting.cnt(lab, q, n)), counting.cnt(lab, q, n)),
        "every_point_is_counted_once": counting.sumI(cnts, k) == z(n),
        "a_listed_point_not_flagged_as_moved_is_still_in_the_cluster_it_wants_to_leave": _fa_pat([a, b, p], z3.Implies(
            tr.mem(a, b, p), z3.And(p >= 0, p < z(n), z3.Implies(flag.get(p) == 0, lab.get(p) == a))), tr.mem(a, b, p)),
    }


def _cell_numbers(res, upto, n, c):
    """rows [0, upto) of a linearised matrix hold a row number in [0, n) and a column number in [0, c) (as floats: int() of them is in range)"""
    r = z3.Int(models.fresh_name("lr"))
    return counting._forall([r], z3.Implies(z3.And(r >= 0, r < z(upto)), z3.And(
        res.get(r, 1) >= 0, res.get(r, 1) < z3.ToReal(z(n)), res.get(r, 2) >= 0, res.get(r, 2) < z3.ToReal(z(c)))), res.get(r, 1))


@contract(K + "::linearize_matrix", "C07")
class Linearize(Contract):
    """PROVED (dense matrix, with or without extra matrices): one row per cell of the matrix, holding in columns 1 and 2 a row number and a column
    number of the matrix; the matrix is not written.  (Which cell a row describes - r // c, r % c - is not claimed: division by a symbolic size.)"""
    variants = [0, 1]

    def setup(self, E, v):
        n, c = E.size("n", 0), E.size("c", 0)
        return dict(mat=E.nd("mat", (n, c)), adds=tuple(E.nd("add%d" % j, (n, c)) for j in range(v)))

    def requires(self, E, a):
        return {"a_dense_matrix": z3.BoolVal(isinstance(a.mat, NdArr) and a.mat.ndim == 2),
                "extra_matrices_have_the_same_shape": z3.And(*[z3.And(z(m.shape[0]) == z(a.mat.shape[0]), z(m.shape[1]) == z(a.mat.shape[1])) for m in a.adds])}

    def old(self, E, a):
        return dict(w=a.mat.cell.writes)

    @staticmethod
    def _rows(E, L):
        res, mat = L["res"], L["mat"]
        n, c = z(mat.shape[0]), z(mat.shape[1])
        for j in (z(L.k), z3.simplify(z(L.k) - 1)):
            # integer arithmetic the solver does not find by itself (products of two symbolic sizes): lemma mul_steps (lemmas/Counting.lean)
            E.axiom(z3.Implies(z3.And(c >= 0, j >= 0), c * j >= 0))
            E.axiom(c * (j + 1) == c * j + c)
            E.axiom(z3.Implies(z3.And(c >= 0, j + 1 <= n), c * (j + 1) <= c * n))
        E.used_lemmas.add("mul_steps")
        return {"one_row_per_cell": z(res.shape[0]) == n * c,
                "rows_of_the_matrix_rows_done_hold_their_cell_numbers": _cell_numbers(res, z(L.k) * c, n, c)}
    loops = {3: _rows.__func__}

    def result(self, E, a, old):
        n, c = z(a.mat.shape[0]), z(a.mat.shape[1])
        rows = E.int("cells")
        E.assume(rows == n * c)
        return NdArr.fresh("linear", (rows, 3 + len(a.adds)), "real")

    def ensures(self, E, a, res, old):
        n, c = a.mat.shape[0], a.mat.shape[1]
        ok = isinstance(res, NdArr) and res.ndim == 2
        out = {"returns_a_matrix": z3.BoolVal(ok)}
        if ok:
            out["one_row_per_cell_and_three_columns_plus_one_per_extra_matrix"] = z3.And(z(res.shape[0]) == z(n) * z(c), z(res.shape[1]) == 3 + len(a.adds))
            out["every_row_holds_a_row_number_and_a_column_number_of_the_matrix"] = _cell_numbers(res, z(n) * z(c), n, c)
            out["matrix_not_written"] = z3.BoolVal(a.mat.cell.writes == old["w"])
        return out

    canaries = {"every_row_number_is_zero": lambda E, a, res, old: z3.ForAll([(r := z3.Int("r!canl"))], z3.Implies(
        z3.And(r >= 0, r < z(a.mat.shape[0]) * z(a.mat.shape[1])), res.get(r, 1) == 0))}


@contract(K + "::_constraint_association_gain", "C07")
class Gain(Contract):
    """PROVED (partial correctness, up to the assertion at the end of the function): the association of strategies 'gain' / 'gain_p' keeps
    every point in one of the k clusters, its counters count the labels throughout (moves, swaps through the transfer lists), and on normal
    return every cluster holds at least floor(n/k) and at most floor(n/k) + (n mod k) points: balanced when n mod k <= 1.
    (n mod k >= 2: KNOWN FINDING sizes-gain-n-mod-k-ge-2; the final assertion can fire: KNOWN FINDING gain-assert-under-filled-cluster.)"""
    variants = ["gain", "gain_p"]
    max_paths = 20000
    sequential = True
    setup = Distance.setup
    symbolic_dicts = {"transfer": "pairlists"}
    loop_modifies = {1: ["leftclose"], 2: ["leftclose"], 3: ["transfer"], 4: ["transfer"]}

    def requires(self, E, a):
        counting.track(E, a.labels)
        counting.track(E, a.counters, want_sum=True)
        out = _quota(a)
        if a.strategy == "gain":
            out["labels_come_from_a_previous_association"] = _between(a.labels, 0, a.centers.shape[0])
        return out

    def old(self, E, a):
        return dict(w=a.X.cell.writes, wc=a.centers.cell.writes, ns=len(E._sum_apps_for_path()))

    # loop 0: for i in labels: counters[i] += 1
    @staticmethod
    def _count(E, L):
        lab, cnts = L["labels"], L["counters"]
        k = cnts.shape[0]
        counting.cnt_step(E, lab, L.k)
        q = z3.Int(models.fresh_name("q"))
        body = z3.Implies(z3.And(q >= 0, q < z(k)), cnts.get(q) == counting.cnt(lab, q, L.k))
        return {"labels_are_clusters": _between(lab, 0, k),
                "counters_count_the_labels_seen_so_far": _fa_pat([q], body, counting.cnt(lab, q, L.k)),
                "points_seen_so_far_are_counted_once": counting.sumI(cnts, k) == z(L.k)}

    # loops 1, 2: the randomised quota repair only writes leftclose and sumi
    @staticmethod
    def _repair(E, L):
        return {"one_flag_per_cluster": z(L["leftclose"].shape[0]) == z(L["counters"].shape[0])}

    loops = {0: _count.__func__, 1: _repair.__func__, 2: _repair.__func__, 3: _gain_book, 4: _gain_book}

    def result(self, E, a, old):
        n, k = a.X.shape[0], a.centers.shape[0]
        for arr in (a.labels, a.counters, a.leftclose, a.distances_close):
            E.note_write(arr)
            E._havoc_cell(arr, arr.cell.name)
        E.assume(_between(a.labels, 0, k))
        E.assume(_gain_sizes(a.labels, n, k, a.limit, a.leftover))
        E.trace.append(dict(op="_constraint_association", labels=a.labels, strategy=a.strategy, limit=a.limit, leftover=a.leftover, X=a.X, centers=a.centers))
        return NdArr.fresh("distances", (n, k), "real")

    def ensures(self, E, a, res, old):
        n, k = a.X.shape[0], a.centers.shape[0]
        # `assert (counters < ave).sum() <= 0`: the number of counters below the quota is 0 (ghost count of the mask, pyvc/models.py mask_info)
        counting.sum_one_out(E, a.counters, k, z(a.limit) * z(k), a.limit)
        cn = a.counters
        return {"every_point_gets_a_cluster": _between(a.labels, 0, k),
                # steps of the argument, each a hypothesis of the next (sequential contract)
                "the_final_check_passed_so_no_counter_is_below_the_quota": _fa(k, lambda c: cn.get(c) >= z(a.limit), "c"),
                "the_counters_add_up_to_n_so_no_counter_exceeds_the_quota_by_more_than_n_mod_k": _fa(k, lambda c: cn.get(c) <= z(a.limit) + z(a.leftover), "c"),
                "every_cluster_has_at_least_floor_of_n_over_k_points_and_at_most_n_mod_k_more": _gain_sizes(a.labels, n, k, a.limit, a.leftover),
                "returns_the_point_by_centre_distances": z3.BoolVal(isinstance(res, NdArr) and res.ndim == 2) if not (isinstance(res, NdArr) and res.ndim == 2)
                else z3.And(z(res.shape[0]) == z(n), z(res.shape[1]) == z(k)),
                "data_and_centres_not_written": z3.BoolVal(a.X.cell.writes == old["w"] and a.centers.cell.writes == old["wc"])}

    def signals(self, E, a, exc, old):
        if exc == "AssertionError":
            # the function checks its own result: a cluster left under the quota is reported, not returned (known finding when it happens)
            return {"only_the_final_check_of_the_counters_raises": z3.BoolVal(True)}
        return None


@contract(K + "::_constraint_association", "C07")
class Association(Contract):
    """the dispatcher: 'distance*' goes to the proved association, 'gain*' to the assumed one, anything else raises"""
    variants = ["distance", "distance_p", "gain", "gain_p", "weights"]
    setup = Distance.setup
    inline_at_calls = True

    def requires(self, E, a):
        out = _quota(a)
        if a.strategy == "gain":
            out["labels_come_from_a_previous_association"] = _between(a.labels, 0, a.centers.shape[0])
        return out

    def old(self, E, a):
        return dict(tl=len(E.trace))

    def ensures(self, E, a, res, old):
        n, k = a.X.shape[0], a.centers.shape[0]
        calls = [t for t in E.trace[old["tl"]:] if t["op"] == "_constraint_association"]
        out = {"one_association_with_the_callers_strategy_and_quota": z3.BoolVal(
            len(calls) == 1 and calls[0]["strategy"] == a.strategy and calls[0]["labels"] is a.labels and calls[0]["limit"] is a.limit
            and calls[0]["leftover"] is a.leftover and calls[0]["X"] is a.X and calls[0]["centers"] is a.centers),
            "every_point_gets_a_cluster": _between(a.labels, 0, k)}
        if a.strategy in ("distance", "distance_p"):
            out["every_cluster_has_floor_or_ceil_of_n_over_k_points"] = _sizes(a.labels, n, k, a.limit)
        if a.strategy in ("gain", "gain_p"):
            out["every_cluster_has_at_least_floor_of_n_over_k_points_and_at_most_n_mod_k_more"] = _gain_sizes(a.labels, n, k, a.limit, a.leftover)
        return out

    def signals(self, E, a, exc, old):
        if exc == "ValueError":
            return {"only_an_unknown_strategy_raises": z3.BoolVal(a.strategy not in ("distance", "distance_p", "gain", "gain_p"))}
        if exc == "AssertionError":
            return {"only_the_final_check_of_the_gain_association_raises": z3.BoolVal(a.strategy in ("gain", "gain_p"))}
        return None


for _name in ("_centers_dense", "_centers_sparse"):
    @contract("mlinsights/mlmodel/_kmeans_022.py::" + _name, "C07", assumed=True)
    class _Centers(Contract):
        def result(self, E, a, old):
            return NdArr.fresh("centers", (a.n_clusters, a.X.shape[1]), "real")


@contract("mlinsights/mlmodel/_kmeans_022.py::_labels_inertia_skl", "C07", assumed=True)
class _Inertia(Contract):
    def result(self, E, a, old):
        return (NdArr.fresh("lab", (a.X.shape[0],), "int"), E.real("inertia"))


@contract(K + "::constraint_predictions", "C07")
class Predictions(Contract):
    variants = ["distance_p", "gain_p"]

    def setup(self, E, v):
        n, k, d = E.size("n", 1), E.size("k", 1), E.size("d", 1)
        return dict(X=E.nd("X", (n, d)), centers=E.nd("centers", (k, d)), strategy=v)

    def requires(self, E, a):
        return {"n>=k": z(a.X.shape[0]) >= z(a.centers.shape[0])}

    def old(self, E, a):
        return dict(tl=len(E.trace), w=a.X.cell.writes)

    def ensures(self, E, a, res, old):
        calls = [t for t in E.trace[old["tl"]:] if t["op"] == "_constraint_association"]
        ok = isinstance(res, tuple) and len(res) == 3 and len(calls) == 1
        out = {"exactly_one_association_over_the_batch": z3.BoolVal(ok)}
        if ok:
            labels = res[0]
            out["returns_the_labels_of_that_association_one_per_row"] = z3.And(
                z3.BoolVal(labels is calls[0]["labels"] and calls[0]["X"] is a.X and calls[0]["centers"] is a.centers and calls[0]["strategy"] == a.strategy),
                z(labels.shape[0]) == z(a.X.shape[0]))
            out["batch_not_written"] = z3.BoolVal(a.X.cell.writes == old["w"])
            if a.strategy == "distance_p":
                out.update(_balanced(labels, a.X.shape[0], a.centers.shape[0], calls[0]["limit"]))
            else:
                out.update(_gain_balanced(labels, a.X.shape[0], a.centers.shape[0], calls[0]["limit"], calls[0]["leftover"]))
        return out

    def signals(self, E, a, exc, old):
        if exc == "AssertionError":
            return {"only_the_final_check_of_the_gain_association_raises": z3.BoolVal(a.strategy == "gain_p")}
        return None


@contract(K + "::constraint_kmeans", "C07")
class Driver(Contract):
    variants = [(s, hw) for s in ("distance", "gain") for hw in (False, True)]
    loop_kinds = {0: {"best_inertia": "real", "best_iter": "int", "best_centers": ("nd", 2), "best_labels": ("nd", 1, "int"), "inertia": "real", "_": ("nd", 1, "int")}}
    max_paths = 20000

    def setup(self, E, v):
        strategy, has_w = v
        n, k, d = E.size("n", 1), E.size("k", 1), E.size("d", 1)
        lab = E.nd("labels", (n,), "int")
        lab.cell.dtype_name = "int32"
        return dict(X=E.nd("X", (n, d)), labels=lab, sample_weight=E.nd("w", (n,)) if has_w else None,
                    centers=E.nd("centers", (k, d)), inertia=E.real("inertia0"), iter=E.int("iter0"), max_iter=E.int("max_iter"),
                    strategy=strategy, verbose=0, state=None, learning_rate=1, history=False)

    def requires(self, E, a):
        # what ConstraintKMeans.fit establishes: the initial k-means used at most half of the budget
        out = {"n>=k": z(a.X.shape[0]) >= z(a.centers.shape[0]), "budget_left": z3.And(z(a.iter) >= 0, z(a.iter) < z(a.max_iter)),
               "labels_are_int32_one_per_point": z3.And(z3.BoolVal(getattr(a.labels.cell, "dtype_name", None) == "int32"), z(a.labels.shape[0]) == z(a.X.shape[0])),
               "centres_have_the_data_dimension": z(a.centers.shape[1]) == z(a.X.shape[1])}
        if a.strategy == "gain":
            # 'gain' starts from the labels it is given (k-means labels or random clusters, see ConstraintKMeans.constraint_kmeans)
            out["initial_labels_are_clusters"] = _between(a.labels, 0, a.centers.shape[0])
        return out

    def old(self, E, a):
        return dict(tl=len(E.trace), w=a.X.cell.writes)

    def result(self, E, a, old):
        # at a call site: fresh results; the quota the associations were given is a ghost of the summary (constrained by ensures)
        n, k = a.X.shape[0], a.centers.shape[0]
        lab = NdArr.fresh("best_labels", (n,), "int")
        E.trace.append(dict(op="_constraint_association", labels=lab, strategy=a.strategy, limit=E.int("limit"), leftover=E.int("leftover"), X=a.X, centers=a.centers))
        return (lab, NdArr.fresh("best_centers", (k, a.centers.shape[1]), "real"), E.real("best_inertia"), None, E.int("iter"), [])

    @staticmethod
    def _inv(E, L):
        out = {"iterations_within_budget": z3.And(z(L["iter"]) >= 0, z(L["iter"]) <= z(L["max_iter"]))}
        bi, bn = L["best_iter"], L["best_inertia"]
        out["best_so_far_is_all_or_nothing"] = z3.BoolVal((bi is None) == (bn is None))
        if bi is None:
            out["nothing_recorded_only_before_the_first_iteration"] = z(L["iter"]) == z(L.old("iter"))
        if bi is not None:
            from pyvc.engine import Unbound
            try:
                bl = L["best_labels"]
            except KeyError:
                bl = None
            ok = isinstance(bl, NdArr)
            out["best_labels_one_per_point"] = z(bl.shape[0]) == z(L["X"].shape[0]) if ok else z3.BoolVal(False)
            out["best_iteration_is_a_past_iteration"] = z3.And(z(bi) >= 1, z(bi) <= z(L["iter"]))
        if L["strategy"] == "distance":
            n, k = L["X"].shape[0], L["n_clusters"]
            out["live_labels_are_balanced"] = z3.And(_between(L["labels"], 0, k), _sizes(L["labels"], n, k, L["limit"]))
            if bi is not None and ok:
                out["best_labels_are_balanced"] = z3.And(_between(bl, 0, k), _sizes(bl, n, k, L["limit"]))
        if L["strategy"] == "gain":
            n, k = L["X"].shape[0], L["n_clusters"]
            out["live_labels_keep_the_gain_guarantee"] = z3.And(_between(L["labels"], 0, k), _gain_sizes(L["labels"], n, k, L["limit"], L["leftover"]))
            if bi is not None and ok:
                out["best_labels_keep_the_gain_guarantee"] = z3.And(_between(bl, 0, k), _gain_sizes(bl, n, k, L["limit"], L["leftover"]))
        return out
    loops = {0: _inv.__func__}
    loop_ignore = {0: ["all_centers"]}      # only appended to under history=True (False in every variant)

    def ensures(self, E, a, res, old):
        ok = isinstance(res, tuple) and len(res) == 6
        out = {"six_results": z3.BoolVal(ok)}
        if ok:
            labels, centers, inertia, weights, it, allc = res
            out["n_iter_does_not_exceed_max_iter"] = z3.And(z(it) >= 0, z(it) <= z(a.max_iter))
            out["one_label_per_training_point"] = z3.BoolVal(isinstance(labels, NdArr)) if not isinstance(labels, NdArr) else z(labels.shape[0]) == z(a.X.shape[0])
            out["training_data_not_written"] = z3.BoolVal(a.X.cell.writes == old["w"])
            calls = [t for t in E.trace[old["tl"]:] if t["op"] == "_constraint_association"]
            out["every_association_uses_the_callers_strategy"] = z3.BoolVal(all(t["strategy"] == a.strategy for t in calls) and len(calls) >= 1)
            if a.strategy == "distance" and isinstance(labels, NdArr) and calls:
                out.update(_balanced(labels, a.X.shape[0], a.centers.shape[0], calls[0]["limit"]))
            if a.strategy == "gain" and isinstance(labels, NdArr) and calls:
                out.update(_gain_balanced(labels, a.X.shape[0], a.centers.shape[0], calls[0]["limit"], calls[0]["leftover"]))
        return out


Distance.canaries = {"every_cluster_has_exactly_the_quota": lambda E, a, res, old: z3.ForAll(
    [(q := z3.Int("q!can"))], z3.Implies(z3.And(q >= 0, q < z(a.centers.shape[0])), counting.cnt(a.labels, q, a.X.shape[0]) == z(a.limit)))}
Gain.canaries = {
    # must NOT be provable: 'gain' does not keep every cluster within floor/ceil when n mod k >= 2 (known finding), and the leftover points go somewhere
    "every_cluster_has_floor_or_ceil_of_n_over_k_points_whatever_n_mod_k": lambda E, a, res, old: _sizes(a.labels, a.X.shape[0], a.centers.shape[0], a.limit),
    "every_cluster_has_exactly_the_quota": lambda E, a, res, old: z3.ForAll(
        [(q := z3.Int("q!cang"))], z3.Implies(z3.And(q >= 0, q < z(a.centers.shape[0])), counting.cnt(a.labels, q, a.X.shape[0]) == z(a.limit)))}
Switch.canaries = {"labels_never_change": lambda E, a, res, old: a.labels.cell.term == old["l0"].cell.term}
Randomize.canaries = {"index_never_changes": lambda E, a, res, old: z3.BoolVal(a.index.cell.writes == 0)}
Driver.canaries = {"stops_strictly_before_max_iter": lambda E, a, res, old: z(res[4]) < z(a.max_iter)}


def _ckm(E, balanced, weights_none=True, strategy="distance"):
    f = dict(n_clusters=E.size("k", 1), init="k-means++", n_init=10, max_iter=E.size("max_iter", 1), tol=E.real("tol"), verbose=0,
             random_state=None, copy_x=True, algorithm="lloyd", balanced_predictions=balanced, strategy=strategy, kmeans0=True,
             history=False, learning_rate=1)
    s = E.new_obj(C + "::ConstraintKMeans", f)
    k, d = s.fields["n_clusters"], E.size("d", 1)
    s.fields["cluster_centers_"] = E.nd("centers", (k, d))
    s.fields["weights_"] = None if weights_none else E.nd("weights", (k,))
    return s


@contract(C + "::ConstraintKMeans.predict", "C07")
class Predict(Contract):
    variants = [(True, True), (False, True), (False, False), (True, True, "gain"), (False, True, "gain")]

    def setup(self, E, v):
        balanced, wnone = v[0], v[1]
        s = _ckm(E, balanced, wnone, v[2] if len(v) > 2 else "distance")
        return dict(self=s, X=E.nd("X", (E.size("n", 1), s.fields["cluster_centers_"].shape[1])), _v=v)

    def requires(self, E, a):
        return {"n>=k": z(a.X.shape[0]) >= z(a.self.fields["n_clusters"])}

    def old(self, E, a):
        return dict(tl=len(E.trace))

    def ensures(self, E, a, res, old):
        tr = E.trace[old["tl"]:]
        assoc = [t for t in tr if t["op"] == "_constraint_association"]
        near = [t for t in tr if t["op"] == "KMeans.predict"]
        if a._v[0]:
            strat = a.self.fields["strategy"]
            out = {"balanced_predictions_come_from_the_balanced_association_of_the_batch": z3.BoolVal(
                len(assoc) == 1 and not near and res is assoc[0]["labels"] and assoc[0]["strategy"] == strat + "_p"
                and assoc[0]["centers"] is a.self.fields["cluster_centers_"] and assoc[0]["X"] is a.X)}
            if len(assoc) == 1 and isinstance(res, NdArr):
                if strat == "distance":
                    out.update(_balanced(res, a.X.shape[0], a.self.fields["n_clusters"], assoc[0]["limit"]))
                else:
                    out.update(_gain_balanced(res, a.X.shape[0], a.self.fields["n_clusters"], assoc[0]["limit"], assoc[0]["leftover"]))
            return out
        return {"without_balanced_predictions_the_nearest_centre": z3.BoolVal(len(near) == 1 and not assoc and res is near[0]["result"] and near[0]["X"] is a.X)}


@contract(C + "::ConstraintKMeans.fit", "C07")
class Fit(Contract):
    """fit: labels_ are balanced (strategy 'distance') / keep the guarantee of the 'gain' association, n_iter_ <= max_iter"""
    variants = [(k0, hw) for k0 in (True, False) for hw in (False, True)] + [(k0, False, "gain") for k0 in (True, False)]
    loops = {0: lambda E, L: {"centers_shape": z(L["centers"].shape[0]) == z(L["self"].fields["n_clusters"])}}

    def setup(self, E, v):
        kmeans0, has_w = v[0], v[1]
        s = _ckm(E, False, strategy=v[2] if len(v) > 2 else "distance")
        s.fields["kmeans0"] = kmeans0
        s.fields["random_state"] = E.int("seed")
        for f in ("cluster_centers_", "weights_"):
            s.fields.pop(f, None)
        n = E.size("n", 1)
        return dict(self=s, X=E.nd("X", (n, E.size("d", 1))), y=None, sample_weight=E.nd("w", (n,)) if has_w else None)

    def requires(self, E, a):
        return {"n>=k": z(a.X.shape[0]) >= z(a.self.fields["n_clusters"])}

    def old(self, E, a):
        return dict(max_iter=a.self.fields["max_iter"], w=a.X.cell.writes)

    def ensures(self, E, a, res, old):
        s = a.self
        lab = s.fields.get("labels_")
        out = {"fit_returns_self": z3.BoolVal(res is s), "labels_is_an_array": z3.BoolVal(isinstance(lab, NdArr))}
        if isinstance(lab, NdArr):
            calls = [t for t in E.trace if t["op"] == "_constraint_association"]
            out["one_label_per_training_point"] = z(lab.shape[0]) == z(a.X.shape[0])
            if calls and s.fields["strategy"] == "gain":
                out.update(_gain_balanced(lab, a.X.shape[0], s.fields["n_clusters"], calls[-1]["limit"], calls[-1]["leftover"]))
            elif calls:
                out.update(_balanced(lab, a.X.shape[0], s.fields["n_clusters"], calls[-1]["limit"]))
            else:
                out["labels_come_from_the_association"] = z3.BoolVal(False)
        out["max_iter_restored"] = z(s.fields["max_iter"]) == z(old["max_iter"])
        out["n_iter_does_not_exceed_max_iter"] = z3.And(z(s.fields["n_iter_"]) >= 0, z(s.fields["n_iter_"]) <= z(old["max_iter"]))
        out["training_data_not_written"] = z3.BoolVal(a.X.cell.writes == old["w"])
        return out


META = dict(
    level="proof", assumptions=["A1", "A2", "A3", "A6", "A7", "A9"], lean_files=["lemmas/Counting.lean", "lemmas/Sums.lean"],
    trusted=["the transfer lists of the 'gain' association are abstracted (pyvc/dicts.py SymListDict): per key the SET of points listed, the head "
             "of a non-empty list is some member, `del l[0]` may or may not remove it from the set, the first components (gains) are unconstrained - "
             "an over-approximation of the concrete lists, sound for the invariants proved; the order bisect.insort keeps is not modelled",
             "partial correctness of the 'gain' association: its final `assert` may fire (known finding gain-assert-under-filled-cluster); "
             "an exception raised by a callee under contract is not propagated into the caller's obligations (callers are proved for normal returns)",
             "numpy.argmin(m, axis=1) returns a column position per row (that it is a smallest entry is not modelled)",
             "ASSUMED numpy/scikit-learn models (pyvc/permmodel.py): argsort returns a permutation of the positions along the axis (with its inverse as a "
             "ghost function), min/max return an attained bound, random.rand in [0,1), random.permutation a bijection, euclidean_distances a "
             "non-negative (rows x rows) matrix, paired integer indexing a[i_, j_]; KMeans.fit returns int32 labels in [0,k), n_iter_ <= max_iter; "
             "KMeans.predict returns the nearest centre; _centers_dense/_sparse and _labels_inertia_skl are opaque",
             "lemma schemas of the ghost counting functions cnt / sumI (pyvc/counting.py LEMMAS: store, constant, range, all/none, quota "
             "pigeonhole in three forms, injective => surjective on [0,n)) are instantiated per event; the schemas themselves are proved in "
             "lemmas/Counting.lean (Lean 4 + Mathlib, run by this check); the correspondence z3 instance <-> Lean statement is by inspection",
             "integers are mathematical (int32 counters do not overflow for n < 2^31)"],
    not_applicable=["the exact floor/ceil sizes under strategy 'gain' when n mod k >= 2 (genuinely violated: known finding; proved: at least floor(n/k), at most "
                    "floor(n/k) + n mod k); centres finite (floating point); termination of the "
                    "association loops (partial correctness only: the while loop is proved to run at most once)"],
)
