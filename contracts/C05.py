"""C05 - QuantileLinearRegression fits, and scores with, the pinball loss of its quantile."""
import z3
from pyvc.api import Contract, contract
from contracts._frames import query_frame
from pyvc.values import Obj, NdArr, z
from pyvc import models
from pyvc.ghost import sum1, SumF

F = "mlinsights/mlmodel/quantile_regression.py"
HALF = z3.RealVal("1/2")


def zabs(x):
    return z3.If(x >= 0, x, -x)


def pinball(q, e):
    """q*max(e,0) + (1-q)*max(-e,0) with e = y - f"""
    return z3.If(e >= 0, q * e, (1 - q) * (-e))


def mult_spec(q, pred, true):
    """per-sign multiplier of _epsilon: q where the prediction is above the target, 1-q below, 1 if equal"""
    return z3.If(pred > true, q, z3.If(pred < true, 1 - q, z3.RealVal(1)))


@contract(F + "::QuantileLinearRegression._epsilon", "C05")
@query_frame("self")
class Epsilon(Contract):
    # targets may be stored as integers (counts, labels used as regression targets): same multipliers as for the same real numbers
    variants = [(hw, yk) for hw in (False, True) for yk in ("real", "int")]
    inline_at_calls = True      # callers execute its (loop-free) body: their obligations stay quantifier-free

    def setup(self, E, v):
        has_w, ykind = v
        n = E.size("n", 0)
        return dict(y_true=E.nd("y", (n,), ykind), y_pred=E.nd("p", (n,)), quantile=E.real("q"),
                    sample_weight=E.nd("w", (n,)) if has_w else None)

    def requires(self, E, a):
        q = z(a.quantile)
        out = {"0<q<1": z3.And(q > 0, q < 1), "same_length": z(a.y_true.shape[0]) == z(a.y_pred.shape[0])}
        if a.sample_weight is not None:
            out["w_len"] = z(a.sample_weight.shape[0]) == z(a.y_true.shape[0])
        return out

    def old(self, E, a):
        return dict(y=a.y_true.snapshot(), p=a.y_pred.snapshot(),
                    w=a.sample_weight.snapshot() if a.sample_weight is not None else None)

    def result(self, E, a, old):
        n = a.y_true.shape[0]
        eps = NdArr.fresh("epsilon", (n,), "real")
        if E.branch(z(a.quantile) == HALF):
            return (eps, None)
        return (eps, NdArr.fresh("mult", (n,), "real"))

    def ensures(self, E, a, res, old, wrong_side=False):
        eps, mult = res
        n = z(a.y_true.shape[0])
        q = z(a.quantile)
        y, p, w = old["y"], old["p"], old["w"]
        out = {"epsilon_is_abs_residual_times_weight": z3.And(
            z(eps.shape[0]) == n,
            E.forall_range([(0, n)], lambda r: eps.get(r) == zabs(p.get(r) - y.get(r)) * (w.get(r) if w is not None else 1)))}
        if mult is None:
            out["mult_none_iff_median"] = q == HALF
        else:
            out["mult_none_iff_median"] = q != HALF
            out["multiplier_side"] = z3.And(z(mult.shape[0]) == n, E.forall_range(
                [(0, n)], lambda r: mult.get(r) == (mult_spec(1 - q, p.get(r), y.get(r)) if wrong_side
                                                   else mult_spec(q, p.get(r), y.get(r)))))
        return out

    canaries = {"multiplier_on_wrong_side": lambda E, a, res, old: Epsilon().ensures(E, a, res, old, True).get(
        "multiplier_side", z3.BoolVal(False))}


def _self(E, fitted=True):
    fields = dict(fit_intercept=E.bool("fit_intercept"), copy_X=True, n_jobs=None, positive=E.bool("positive"),
                  max_iter=E.size("max_iter", 1), verbose=False, delta=E.real("delta"), quantile=E.real("q"))
    return E.new_obj(F + "::QuantileLinearRegression", fields)


@contract(F + "::QuantileLinearRegression.score", "C05")
@query_frame("self")
class Score(Contract):
    """score = 2 * (weighted) mean pinball loss of the model's own quantile; MAE at q = 0.5"""
    variants = [False, True]

    def setup(self, E, has_w):
        n, d = E.size("n", 1), E.size("d", 1)
        return dict(self=_self(E), X=E.nd("X", (n, d)), y=E.nd("y", (n,)), sample_weight=E.nd("w", (n,)) if has_w else None)

    def requires(self, E, a):
        q = z(a.self.fields["quantile"])
        out = {"0<q<1": z3.And(q > 0, q < 1)}
        if a.sample_weight is not None:
            n = z(a.X.shape[0])
            out["weights_positive_sum"] = sum1(E, a.sample_weight) > 0
        return out

    def old(self, E, a):
        return dict(tl=len(E.trace), y=a.y.snapshot(), w=a.sample_weight.snapshot() if a.sample_weight is not None else None,
                    ns=len(E._sum_apps_for_path()))

    def ensures(self, E, a, res, old, q_of=lambda q: q):
        q = z(a.self.fields["quantile"])
        n = z(a.X.shape[0])
        tr = E.trace[old["tl"]:]
        preds = [t for t in tr if t["op"] == "predict"]
        out = {"one_prediction_of_X": z3.BoolVal(len(preds) == 1 and preds[0]["X"] is a.X)}
        if not (len(preds) == 1):
            return out
        pred = preds[0]["result"]
        y, w = old["y"], old["w"]
        maes = [t for t in tr if t["op"] == "mean_absolute_error"]
        if maes:
            t = maes[0]
            out["median_scores_with_mean_absolute_error"] = z3.And(
                q == HALF, z3.BoolVal(t["y_true"] is a.y and t["y_pred"] is pred and t["w"] is a.sample_weight))
            return out
        out["median_scores_with_mean_absolute_error"] = q != HALF
        # spec: 2 * sum_r w_r * pinball(q, y_r - f_r) / (sum_r w_r  or  n)
        spec = NdArr.from_fn("spec", (n,), "real", lambda r: 2 * (w.get(r) if w is not None else 1)
                             * pinball(q_of(q), y.get(r) - pred.get(r)))
        apps = E._sum_apps_for_path()[old["ns"]:]
        out["one_sum_over_the_rows"] = z3.BoolVal(len(apps) >= 1)
        if not apps:
            return out
        code_arr, code_n, code_S = apps[0]
        # lemma (its goal is assumed for the next clause): the summed terms are the pinball terms
        out["summand_is_twice_weighted_pinball"] = z3.And(code_n == n, E.forall_range(
            [(0, n)], lambda r: z3.Select(code_arr, r) == spec.get(r)))
        S = sum1(E, spec)
        from pyvc.ghost import sum_congr, app_of
        sum_congr(E, apps[0], app_of(E, S))
        N = sum1(E, a.sample_weight) if a.sample_weight is not None else z3.ToReal(n)
        out["score_is_twice_the_mean_pinball_loss_of_q"] = z(res) == S / N
        return out

    canaries = {"pinball_of_one_minus_q": lambda E, a, res, old: Score().ensures(E, a, res, old, lambda q: 1 - q).get(
        "summand_is_twice_weighted_pinball", z3.BoolVal(True))}


@contract(F + "::QuantileLinearRegression.fit.compute_z", "C05")
class ComputeZ(Contract):
    """IRLS weights: r = (1-mult)/max(|residual|, delta), epsilon = |residual|*(1-mult): the asymmetric
    weight q is on the targets ABOVE the plane (prediction below target)"""
    free = ["X", "self"]

    def setup(self, E, v):
        n, d = E.size("n", 1), E.size("d", 1)
        X = E.nd("X", (n, d))
        return dict(Xm=E.nd("Xm", (n, d)), beta=E.nd("beta", (d,)), Y=E.nd("Y", (n,)), W=E.nd("W", (n,)),
                    delta=E.real("delta"), X=X, self=_self(E))

    def requires(self, E, a):
        q = z(a.self.fields["quantile"])
        return {"0<q<1": z3.And(q > 0, q < 1), "delta>0": z(a.delta) > 0,
                "rows": z3.And(z(a.Xm.shape[0]) == z(a.X.shape[0]), z(a.Y.shape[0]) == z(a.X.shape[0])),
                "cols": z(a.Xm.shape[1]) == z(a.beta.shape[0])}

    def old(self, E, a):
        return dict(Xm=a.Xm.snapshot(), beta=a.beta.snapshot(), Y=a.Y.snapshot(),
                    writes={k: a[k].cell.writes for k in ("Xm", "beta", "Y", "W") if isinstance(a[k], NdArr)})

    def _pred(self, E, a, old):
        mm = E.ps.get("matmul", [])
        if old.get("pred") is not None:
            return old["pred"]
        return None

    def result(self, E, a, old):
        n = a.Xm.shape[0]
        old["pred"] = E.registry.matmul(E, a.Xm, a.beta, None)
        return (NdArr.fresh("r", (n,), "real"), NdArr.fresh("epsilon", (n,), "real"))

    def ensures(self, E, a, res, old, swap=False):
        r, eps = res
        q = z(a.self.fields["quantile"])
        n = z(a.Xm.shape[0])
        pred = old.get("pred")
        if pred is None:
            mm = E.ps.get("matmul", [])
            ok = len(mm) == 1 and mm[0][0] is a.Xm and mm[0][1] is a.beta
            if not ok:
                return {"prediction_is_Xm_beta": z3.BoolVal(False)}
            pred = NdArr.from_fn("pred", (a.Xm.shape[0],), "real", lambda k: E.registry.dotF(mm[0][2], mm[0][3], k))
        Y = old["Y"]
        d = z(a.delta)

        def one_minus_mult(k):
            m = mult_spec(q, pred.get(k), Y.get(k))
            if swap:
                m = mult_spec(1 - q, pred.get(k), Y.get(k))
            return z3.If(q == HALF, z3.RealVal(1), 1 - m)
        res_abs = lambda k: zabs(pred.get(k) - Y.get(k))
        return {
            # W may be the caller's sample weights: the new weights are NEW arrays, the arguments are read only
            "arguments_not_written_results_are_new_arrays": z3.BoolVal(
                all(a[k].cell.writes == w for k, w in old.get("writes", {}).items())
                and all(isinstance(x, NdArr) and all(x.cell is not a[k].cell for k in ("Xm", "beta", "Y", "W") if isinstance(a[k], NdArr)) for x in (r, eps))),
            "irls_weight": z3.And(z(r.shape[0]) == n, E.forall_range(
                [(0, n)], lambda k: r.get(k) == one_minus_mult(k) / z3.If(res_abs(k) >= d, res_abs(k), d))),
            "weighted_abs_residual": z3.And(z(eps.shape[0]) == n, E.forall_range(
                [(0, n)], lambda k: eps.get(k) == res_abs(k) * one_minus_mult(k))),
        }

    canaries = {"weight_on_wrong_side": lambda E, a, res, old: ComputeZ().ensures(E, a, res, old, swap=True)["irls_weight"]}


@contract(F + "::QuantileLinearRegression.fit", "C05")
class Fit(Contract):
    variants = [(False, "real"), (True, "real"), (False, "int")]      # sample weights given or not; features stored as floats or as integers
    loop_kinds = {0: {"*none*": "real", "lastE": "real", "beta": ("nd", 1), "epsilon": ("nd", 1), "E": "real"}}

    def setup(self, E, v):
        has_w, xkind = v
        n, d = E.size("n", 1), E.size("d", 1)
        return dict(self=_self(E), X=E.nd("X", (n, d), xkind), y=E.nd("y", (n,)), sample_weight=E.nd("w", (n,)) if has_w else None)

    def requires(self, E, a):
        s = a.self.fields
        return {"0<q<1": z3.And(z(s["quantile"]) > 0, z(s["quantile"]) < 1), "delta>0": z(s["delta"]) > 0,
                "max_iter>=1": z(s["max_iter"]) >= 1}

    def old(self, E, a):
        return dict(tl=len(E.trace), params={k: v for k, v in a.self.fields.items()},
                    writes={k: a[k].cell.writes for k in ("X", "y", "sample_weight") if isinstance(a[k], NdArr)},
                    data={k: a[k].snapshot() for k in ("X", "y", "sample_weight") if isinstance(a[k], NdArr)})

    @staticmethod
    def _W_spec(E, s, Xm, beta, y, sw, k, swap=False):
        """weight of row k for the next least-squares step, from the current beta"""
        q = z(s.fields["quantile"])
        d = z(s.fields["delta"])
        ta, tb = models.term2c(E, Xm), models.term1c(E, beta)
        pred = E.registry.dotF(ta, tb, k)
        m = mult_spec(1 - q if swap else q, pred, y.get(k))
        omm = z3.If(q == HALF, z3.RealVal(1), 1 - m)
        a = zabs(pred - y.get(k))
        base = omm / z3.If(a >= d, a, d)
        return base * sw.get(k) if sw is not None else base

    @staticmethod
    def _inv(E, L):
        s = L["self"]
        n = z(L["X"].shape[0])
        sw = L["sample_weight"]
        out = {"n_iter_is_last_index": z3.If(L.k == 0, z(s.fields["n_iter_"]) == 0, z(s.fields["n_iter_"]) == L.k - 1),
               "W_has_n_rows": z(L["W"].shape[0]) == n}
        if L.k is not None:
            try:
                beta = L["beta"]
            except KeyError:
                beta = None
            from pyvc.engine import Unbound
            if beta is not None and not isinstance(beta, Unbound):
                out["beta_has_p_columns"] = z3.Implies(L.k > 0, z(beta.shape[0]) == z(L["Xm"].shape[1]))
                # the targets of the specification are the CALLER's targets (as given at entry, whatever the features' dtype is), not a local copy
                y_in = E.ps["inputs"]["y"]
                out["next_weights_are_irls_weights_of_the_callers_targets_times_sample_weight"] = z3.Implies(L.k > 0, E.forall_range(
                    [(0, n)], lambda r: L["W"].get(r) == Fit._W_spec(E, s, L["Xm"], beta, y_in, sw, r)))
        return out
    loops = {0: _inv.__func__}

    def at_cut(self, E, a, old):
        # also where a path ends inside the loop: the first iteration starts with W = the caller's sample_weight
        return {"training_data_and_sample_weight_not_written": z3.BoolVal(all(a[k].cell.writes == w for k, w in old["writes"].items()))}

    def ensures(self, E, a, res, old):
        s = a.self
        f = s.fields
        out = {"returns_self": z3.BoolVal(res is s)}
        out["n_iter_below_max_iter"] = z3.And(z(f["n_iter_"]) >= 0, z(f["n_iter_"]) < z(f["max_iter"]))
        news = [t for t in E.trace[old["tl"]:] if t["op"] == "new"]
        out["inner_regression_without_intercept_and_positive_forwarded"] = z3.BoolVal(
            len(news) == 1 and news[0]["params"]["fit_intercept"] is False) if not news or len(news) != 1 else z3.And(
            z3.BoolVal(news[0]["params"]["fit_intercept"] is False), z(news[0]["params"]["positive"]) == z(old["params"]["positive"]))
        out["zero_intercept_without_fit_intercept"] = z3.Or(z(old["params"]["fit_intercept"]),
                                                            z3.BoolVal(not z3.is_expr(f.get("intercept_")) and f.get("intercept_") == 0))
        out["hyper_parameters_unchanged"] = z3.BoolVal(all(f.get(k) is v or (z3.is_expr(v) and z3.is_expr(f.get(k)) and z3.eq(f.get(k), v))
                                                           for k, v in old["params"].items()))
        # what is stored is what the last inner regression gave, as floating-point numbers (not cast to the dtype of the features)
        loc = E.ps.get("top_locals") or {}
        beta, coef = loc.get("beta"), f.get("coef_")
        if isinstance(beta, NdArr) and isinstance(coef, NdArr):
            p_ = z(coef.shape[0])
            out["stored_coefficients_are_those_of_the_last_inner_regression_as_floats"] = z3.And(
                z3.BoolVal(coef.kind == "real"), E.forall_range([(0, p_)], lambda j: coef.get(j) == beta.get(j)))
        else:
            out["stored_coefficients_are_those_of_the_last_inner_regression_as_floats"] = z3.BoolVal(False)
        # the caller's arrays - the sample weights above all, which the iterations re-weight - are read, never written
        out["training_data_and_sample_weight_not_written"] = z3.BoolVal(all(a[k].cell.writes == w for k, w in old["writes"].items()))
        return out


META = dict(
    level="proof", lean_files=["lemmas/Sums.lean"], assumptions=["A1", "A2", "A6", "A7", "A9"],
    trusted=["LinearRegression.predict returns one real per row; LinearRegression(...).fit(X, y, w).coef_ has one entry per column of X",
             "mean_absolute_error is scikit-learn's (weighted) mean absolute error",
             "ghost Sum congruence lemma instances; nonlinear real arithmetic q*e decided by z3 nlsat"],
    not_applicable=["the hyperplane minimises the pinball loss up to the IRLS tolerance / a fraction q of targets lies below it / integer "
                    "weights are equivalent to repeated rows: fixed points of a numerical iteration capped at max_iter - no contract expresses them; "
                    "the proved IRLS clauses (weight formula, side of the asymmetric weight, sample_weight factor in every re-weighting) are the "
                    "data flow these statements rest on; a bounded check of the repeated-rows clause runs in the stand-in",
                    "positive=True gives non-negative coefficients: property of scikit-learn's LinearRegression (assumed), forwarding is proved"],
)
