"""C09 - PiecewiseTreeRegressor: per-leaf least squares; the compiled criteria compute the true MSE.

Python side under contract: predict dispatches on the criterion; _predict_reglin gives every row [X[r], 1] . betas_[leaf(r)] (loop
invariant); fit creates the compiled criterion for the given name, restores the name on every exit and fits the per-leaf regressions
iff criterion == 'mselin'.  The compiled criteria 'simple' (slow and fast) and their common base are verified on the text extracted
mechanically from the .pyx files (contracts/_criteria.py): node value = weighted mean, impurities = weighted mean squared residual of the
constant fit, children impurities, weights, improvement and its proxy.  'mselin' (LAPACK) stays bounded."""
import z3
from pyvc.api import Contract, contract
from contracts._frames import query_frame
from pyvc.values import Obj, NdArr, Opaque, z
from pyvc import models
from pyvc.npmodel import getitem as np_getitem
from contracts import C02 as _c02
from contracts import _criteria            # the compiled criteria, verified on the text extracted from the .pyx files

F = "mlinsights/mlmodel/piecewise_tree_regression.py"
PARAMS = dict(criterion="mselin", splitter="best", max_depth=None, min_samples_split=2, min_samples_leaf=1, min_weight_fraction_leaf=0,
              max_features=None, random_state=None, max_leaf_nodes=None, min_impurity_decrease=0)


applyF = z3.Function("apply_", models.Est, models.Row, z3.IntSort())           # ghost: the leaf (node id) a fitted tree routes a row to
lposF = z3.Function("leaf_position_of_row", models.Est, models.Row, z3.IntSort())     # ghost: position in leaves_index_ of the leaf of a row


def _seq_len(v):
    return v.length


def _seq_get(v, t):
    return v.get(t) if hasattr(v, "get") else z(v.item(t))


def _leaves_wf(E, s):
    """object invariant after _fit_reglin (stated as a precondition): leaves_index_ lists nodes of the tree and every row's decision
    path contains exactly one of them (scikit-learn trees: a row ends in exactly one leaf, all leaves are listed - ASSUMED)"""
    st = _tree_state(s)
    leaves = s.fields["leaves_index_"]
    R = E.registry
    row = z3.Const("rho!lw", models.Row)
    t = z3.Int("t!lw")
    L = z(_seq_len(leaves))
    return {"one_row_of_coefficients_per_listed_leaf": z3.And(L >= 1, z(s.fields["betas_"].shape[0]) == L) if "betas_" in s.fields else L >= 1,
            "listed_leaves_are_nodes_and_each_row_ends_in_exactly_one": z3.ForAll([row, t], z3.And(
                lposF(st, row) >= 0, lposF(st, row) < L,
                z3.Implies(z3.And(t >= 0, t < L), z3.And(_seq_get(leaves, t) >= 0, _seq_get(leaves, t) < R.nodesF(st),
                                                         z3.Or(R.pathF(st, row, _seq_get(leaves, t)) == 0, R.pathF(st, row, _seq_get(leaves, t)) == 1),
                                                         (R.pathF(st, row, _seq_get(leaves, t)) == 1) == (t == lposF(st, row))))))}


def _tree_state(s):
    t = s.fields["tree_"]
    return t.term if isinstance(t, Opaque) else t.fields["$state"]


@contract(F + "::PiecewiseTreeRegressor.predict_leaves", "C09")
@query_frame("self")
class PredictLeaves(Contract):
    """PROVED (sparse decision_path, column selection, argmax): the position in leaves_index_ of the leaf each row falls into"""

    def setup(self, E, v):
        from pyvc.values import SList
        s = _fitted(E)
        return dict(self=s, X=E.nd("X", (E.size("n", 0), s.fields["$d"])))

    def requires(self, E, a):
        return _leaves_wf(E, a.self)

    def old(self, E, a):
        return dict(X=a.X.snapshot())

    def result(self, E, a, old):
        out = NdArr.fresh("leaves", (a.X.shape[0],), "int")
        E.ps["c09_leaves"] = out
        return out

    def ensures(self, E, a, res, old, shifted=False):
        ok = isinstance(res, NdArr) and res.ndim == 1
        out = {"one_position_per_row": z3.BoolVal(ok) if not ok else z(res.shape[0]) == z(a.X.shape[0])}
        if ok:
            st = _tree_state(a.self)
            L = z(_seq_len(a.self.fields["leaves_index_"]))
            out["position_of_the_rows_own_leaf"] = E.forall_range([(0, z(a.X.shape[0]))], lambda r: z3.And(
                res.get(r) >= 0, res.get(r) < L, res.get(r) == lposF(st, models.row_of(E, old["X"], r)) + (1 if shifted else 0)))
        return out

    canaries = {"position_of_the_next_leaf": lambda E, a, res, old: PredictLeaves().ensures(E, a, res, old, shifted=True).get(
        "position_of_the_rows_own_leaf", z3.BoolVal(True))}


def _fitted(E, crit="mselin"):
    s = E.new_obj(F + "::PiecewiseTreeRegressor", dict(PARAMS, criterion=crit))
    d = E.size("d", 1)
    from pyvc.values import SList
    leaves = SList.fresh("leaves_index", z3.IntSort())
    E.assume(leaves.length >= 1)
    s.fields["leaves_index_"] = leaves
    s.fields["betas_"] = E.nd("betas", (leaves.length, z3.simplify(z(d) + 1)))
    s.fields["tree_"] = Opaque(z3.Const("tree", models.Est), "tree")
    s.fields["$d"] = d
    return s


@contract(F + "::PiecewiseTreeRegressor._predict_reglin", "C09")
@query_frame("self")
class PredictReglin(Contract):
    variants = ["real", "int"]         # dtype of the batch: integer features are evaluated like the same real numbers

    def setup(self, E, v):
        s = _fitted(E)
        return dict(self=s, X=E.nd("X", (E.size("n", 0), s.fields["$d"]), v), check_input=True)

    def requires(self, E, a):
        return _leaves_wf(E, a.self)

    def old(self, E, a):
        return dict(tl=len(E.trace), X=a.X.snapshot(), w=a.X.cell.writes)

    @staticmethod
    def _row(arr, idx, known_nonneg):
        """the 1-d view arr[idx, :] built exactly as the executor builds it (without the IndexError check)"""
        n = z(arr.shape[0])
        eff = idx if known_nonneg else z3.simplify(z3.If(idx < 0, idx + n, idx))
        return arr.view((arr.shape[1],), [("fix", eff), ("dim", 0, 0, 1)])

    @staticmethod
    def _row_dot(E, Xone, betas, leaves, r):
        xr = PredictReglin._row(Xone, r, True)
        br = PredictReglin._row(betas, leaves.get(r), False)
        return E.registry.dot1F(models.term1c(E, xr), models.term1c(E, br))

    @staticmethod
    def _inv(E, L):
        pred, Xone, leaves, s = L["pred"], L["Xone"], L["leaves"], L["self"]
        return {"done_rows": E.forall_range([(0, L.i)], lambda r: pred.get(r, 0) == PredictReglin._row_dot(E, Xone, s.fields["betas_"], leaves, r)),
                "shape": z3.And(z(pred.shape[0]) == z(L["X"].shape[0]), z(pred.shape[1]) == 1)}
    loops = {0: _inv.__func__}

    def ensures(self, E, a, res, old, other_leaf=False):
        hs = [t for t in E.trace[old["tl"]:] if t["op"] == "hstack"]
        leaves = E.ps.get("c09_leaves")
        ok = isinstance(res, NdArr) and len(hs) == 1 and leaves is not None
        out = {"array": z3.BoolVal(ok), "input_not_written": z3.BoolVal(a.X.cell.writes == old["w"])}
        if not ok:
            return out
        Xone = hs[0]["result"]
        n, d = z(a.X.shape[0]), z(a.X.shape[1])
        out["design_row_is_the_features_followed_by_one"] = z3.And(z(Xone.shape[0]) == n, z(Xone.shape[1]) == d + 1, E.forall_range(
            [(0, n), (0, d + 1)], lambda r, c: Xone.get(r, c) == z3.If(c < d, old["X"].get(r, c), 1)))
        lv = leaves if not other_leaf else NdArr.from_fn("wrong", leaves.shape, "int", lambda r: leaves.get(r) + 1)
        val = (lambda r: res.get(r)) if res.ndim == 1 else (lambda r: res.get(r, 0))
        out["each_row_is_evaluated_with_the_coefficients_of_its_own_leaf"] = z3.And(z(res.shape[0]) == n, E.forall_range(
            [(0, n)], lambda r: val(r) == PredictReglin._row_dot(E, Xone, a.self.fields["betas_"], lv, r)))
        return out

    canaries = {"coefficients_of_the_next_leaf": lambda E, a, res, old: PredictReglin().ensures(E, a, res, old, other_leaf=True).get(
        "each_row_is_evaluated_with_the_coefficients_of_its_own_leaf", z3.BoolVal(True))}


@contract(F + "::PiecewiseTreeRegressor.predict", "C09")
@query_frame("self")
class Predict(Contract):
    variants = ["mselin", "simple", "squared_error"]

    def setup(self, E, crit):
        s = _fitted(E, crit)
        return dict(self=s, X=E.nd("X", (E.size("n", 0), s.fields["$d"])), check_input=True, _crit=crit)

    def requires(self, E, a):
        return _leaves_wf(E, a.self) if a._crit == "mselin" else {}

    def old(self, E, a):
        return dict(tl=len(E.trace))

    def ensures(self, E, a, res, old):
        tr = E.trace[old["tl"]:]
        tree = [t for t in tr if t["op"] == "DecisionTreeRegressor.predict"]
        if a._crit == "mselin":
            return {"mselin_uses_the_per_leaf_regressions": z3.BoolVal(not tree and E.ps.get("c09_leaves") is not None)}
        return {"other_criteria_use_the_trees_leaf_value": z3.BoolVal(len(tree) == 1 and tree[0]["X"] is a.X and res is tree[0]["result"])}


GF = z3.Function("beta_of_leaf_position", z3.IntSort(), z3.IntSort(), z3.RealSort())     # ghost: coefficient j of the regression of leaf position i


@contract(_c02.FitReglin.key, "C09")
class FitReglin(Contract):
    """PROVED (the real loop over the leaves): leaves_index_ lists exactly the leaves of the tree; for every leaf position i one
    LinearRegressorCriterion is created on exactly the training rows whose predict_leaves position is i - with their targets and weights -
    and its node_beta (the least-squares coefficients: compiled code, assumed) is stored in betas_[i, :]"""
    variants = [False, True]
    max_paths = 20000

    def setup(self, E, has_w):
        s = E.new_obj(F + "::PiecewiseTreeRegressor", dict(PARAMS, criterion="mselin"))
        m = E.size("node_count", 1)
        t = Obj("Tree", tag="Tree")
        cl, cr = E.nd("children_left", (m,), "int"), E.nd("children_right", (m,), "int")
        st = z3.Const("tree", models.Est)
        t.fields.update(cnt=m, node_count=m, children_left=cl, children_right=cr, n_leaves=E.int("n_leaves"))
        t.fields["$children_left"], t.fields["$children_right"], t.fields["$state"] = cl, cr, st
        s.fields["tree_"] = t
        n, d = E.size("n", 1), E.size("d", 1)
        return dict(self=s, X=E.nd("X", (n, d)), y=E.nd("y", (n,)), sample_weight=E.nd("w", (n,)) if has_w else None, _m=m, _cl=cl, _cr=cr)

    def requires(self, E, a):
        # ASSUMED about the fitted scikit-learn tree: a node is a leaf iff both children ids are <= its own id (leaves: -1; split nodes have
        # larger children), n_leaves counts them, decision_path has one column per node and marks exactly one leaf per row
        if "_m" not in a:
            return {}        # call sites use the summary; the facts below are assumptions about the fitted scikit-learn tree, not duties of the caller
        st = a.self.fields["tree_"].fields["$state"]
        R = E.registry
        row, j = z3.Const("rho!fr", models.Row), z3.Int("j!fr")
        m = z(a._m)
        isleaf = lambda q: z3.And(a._cl.get(q) <= q, a._cr.get(q) <= q)
        leafmask = NdArr.from_fn("isleaf", (a._m,), "bool", isleaf)
        leafmask.canonical_key = True         # the same predicate as the filter of the comprehension in _fit_reglin: one set of ghost symbols
        fm, n_, K, rank, unrank = E.registry.mask_info(E, leafmask)
        a["_K"] = K
        # ghost definition: the position of a row's leaf in leaves_index_ is the rank of that leaf among the leaves
        E.assume(z3.ForAll([row], lposF(st, row) == rank(applyF(st, row)), patterns=[lposF(st, row)]))
        return {"decision_path_has_one_column_per_node": R.nodesF(st) == m,
                "n_leaves_is_the_number_of_leaves": z(a.self.fields["tree_"].fields["n_leaves"]) == K,
                "every_row_ends_in_exactly_one_leaf": z3.ForAll([row, j], z3.And(
                    applyF(st, row) >= 0, applyF(st, row) < m, isleaf(applyF(st, row)),
                    z3.Implies(z3.And(j >= 0, j < m), z3.Or(R.pathF(st, row, j) == 0, R.pathF(st, row, j) == 1)),
                    z3.Implies(z3.And(j >= 0, j < m, isleaf(j)), (R.pathF(st, row, j) == 1) == (j == applyF(st, row))))),
                "one_target_per_row": z3.And(z(a.y.shape[0]) == z(a.X.shape[0]), z3.BoolVal(True) if a.sample_weight is None else z(a.sample_weight.shape[0]) == z(a.X.shape[0]))}

    def old(self, E, a):
        return dict(tl=len(E.trace), w=a.X.cell.writes) if "_m" in a else dict(callsite=True)

    @staticmethod
    def _inv(E, L):
        s, X = L["self"], L["X"]
        betas = s.fields["betas_"]
        i, j = z3.Int(models.fresh_name("i")), z3.Int(models.fresh_name("j"))
        out = {"coefficients_of_the_leaves_done_so_far": z3.ForAll([i, j], z3.Implies(
            z3.And(i >= 0, i < z(L.k), j >= 0, j <= z(X.shape[1])), betas.get(i, j) == GF(i, j)))}
        creates = [t for t in E.trace if t["op"] == "LinearRegressorCriterion.create"]
        betas_w = [t for t in E.trace if t["op"] == "node_beta"]
        if creates:
            # the iteration just executed (leaf position L.k - 1): its criterion was built on exactly the rows of that position
            t = creates[-1]
            pos = z(L.k) - 1
            pred = L["pred_leaves"]
            ok = len(creates) == 1 and len(betas_w) == 1 and betas_w[0]["obj"] is t["result"]
            sel = getattr(t["X"].cell, "sel_of", None) if isinstance(t["X"], NdArr) else None
            ok = ok and sel is not None and sel[0] is X and (L["sample_weight"] is None) == (t["w"] is None) and isinstance(t["y"], NdArr) and t["y"].ndim == 2
            out["one_criterion_per_leaf_whose_coefficients_are_stored"] = z3.BoolVal(bool(ok))
            if ok:
                fm, n_, K_, rank, unrank = E.registry.mask_info(E, sel[1])
                r, q = z3.Int(models.fresh_name("r")), z3.Int(models.fresh_name("q"))
                out["criterion_built_on_exactly_the_rows_of_this_leaf_position"] = z3.ForAll(
                    [r], z3.Implies(z3.And(r >= 0, r < z(X.shape[0])), fm.get(r) == (pred.get(r) == pos)))
                same = [z(t["y"].shape[0]) == K_, z(t["y"].shape[1]) == 1, t["y"].get(q, 0) == L["y"].get(unrank(q))]
                if t["w"] is not None:
                    same += [z(t["w"].shape[0]) == K_, t["w"].get(q) == L["sample_weight"].get(unrank(q))]
                out["with_the_targets_and_weights_of_those_rows"] = z3.ForAll([q], z3.Implies(z3.And(q >= 0, q < K_), z3.And(*same)))
                # ghost definition of GF at this position: the coefficients of THAT criterion (each position is visited once)
                jj = z3.Int(models.fresh_name("jj"))
                E.assume(z3.ForAll([jj], GF(pos, jj) == E.registry.olsF(t["result"].fields["$cid"], jj)))
        return out
    loops = {0: _inv.__func__}

    def result(self, E, a, old):
        E.trace.append(dict(op="_fit_reglin", X=a.X, y=a.y, w=a.sample_weight))
        return _c02.FitReglin.result(self, E, a, old)

    def ensures(self, E, a, res, old, off=0):
        if old.get("callsite"):
            return {}
        s = a.self
        leaves, betas = s.fields.get("leaves_index_"), s.fields.get("betas_")
        ok = leaves is not None and isinstance(betas, NdArr) and betas.ndim == 2
        out = {"leaves_index_and_betas_are_set": z3.BoolVal(ok)}
        if not ok:
            return out
        K = z(_seq_len(leaves))
        t = z3.Int(models.fresh_name("t"))
        isleaf = lambda q: z3.And(a._cl.get(q) <= q, a._cr.get(q) <= q)
        out["leaves_index_lists_leaves_in_increasing_order_and_all_of_them"] = z3.And(K == z(a._K), z3.ForAll([t], z3.Implies(z3.And(t >= 0, t < K), z3.And(
            _seq_get(leaves, t) >= 0, _seq_get(leaves, t) < z(a._m), isleaf(_seq_get(leaves, t)),
            z3.Implies(t + 1 < K, _seq_get(leaves, t) < _seq_get(leaves, t + 1))))))
        out["one_row_of_coefficients_per_leaf_features_then_intercept"] = z3.And(z(betas.shape[0]) == K, z(betas.shape[1]) == z(a.X.shape[1]) + 1)
        i, j = z3.Int(models.fresh_name("i")), z3.Int(models.fresh_name("j"))
        out["row_i_holds_the_coefficients_of_the_regression_of_leaf_position_i"] = z3.ForAll([i, j], z3.Implies(
            z3.And(i >= 0, i < K, j >= 0, j <= z(a.X.shape[1])), betas.get(i, j) == GF(i + off, j)))
        out["training_data_not_written"] = z3.BoolVal(a.X.cell.writes == old["w"])
        return out

    canaries = {"coefficients_of_the_next_leaf": lambda E, a, res, old: FitReglin().ensures(E, a, res, old, off=1).get(
        "row_i_holds_the_coefficients_of_the_regression_of_leaf_position_i", z3.BoolVal(True))}


class Fit(_c02.PiecewiseTreeFit):
    frame_only = True

    def ensures(self, E, a, res, old):
        s = a["self"]
        crit = old["params"]["criterion"]
        news = [t for t in E.trace[old["tl"]:] if t["op"] == "new"]
        fits = [t for t in E.trace[old["tl"]:] if t["op"] == "DecisionTreeRegressor.fit"]
        rl = [t for t in E.trace[old["tl"]:] if t["op"] == "_fit_reglin"]
        out = {"returns_self": z3.BoolVal(res is s)}
        want = {"mselin": "LinearRegressorCriterion", "simple": "SimpleRegressorCriterionFast"}.get(crit)
        out["tree_grown_with_the_compiled_criterion_of_that_name"] = z3.BoolVal(
            len(fits) == 1 and ((want is None and not news and fits[0]["criterion"] == crit) or
                                (want is not None and len(news) == 1 and news[0]["cls"] == want and fits[0]["criterion"] is news[0]["result"])))
        out["per_leaf_regressions_iff_mselin"] = z3.BoolVal((len(rl) == 1 and rl[0]["X"] is a["X"] and rl[0]["y"] is a["y"]) if crit == "mselin" else not rl)
        return out


contract(_c02.PiecewiseTreeFit.key, "C09")(Fit)

META = dict(
    level="proof", assumptions=["A1", "A2", "A6", "A7", "A9"], lean_files=["lemmas/Counting.lean", "lemmas/Sums.lean"],
    trusted=["LinearRegressorCriterion.create / node_beta are compiled LAPACK code: ASSUMED to build a criterion over exactly the given rows and to write ITS "
             "least-squares coefficients (features then intercept); _fit_reglin (the real loop over the leaves) and predict_leaves are PROVED against the "
             "scikit-learn facts stated as preconditions (a node is a leaf iff both children ids are <= its id; n_leaves counts them; decision_path has one "
             "column per node and marks exactly one leaf per row) and the sparse-matrix / argmax models of pyvc/sparsemodel.py",
             "numpy.dot of two vectors is a function of their entries (ghost dot1); DecisionTreeRegressor.fit/predict are scikit-learn's",
             "the compiled criteria 'simple' (SimpleRegressorCriterion, SimpleRegressorCriterionFast) and their common base are verified on the "
             "Python-subset text EXTRACTED MECHANICALLY from the .pyx files on every run (pyvc/pyxstrip.py: cimports, C types of signatures and "
             "locals, casts, decorators, GIL / exception specifications are dropped; address-of a local becomes a one-element cell; NULL -> None; "
             "a C int function falling off its end returns 0).  Assumed when reading that text as Python: C double / integer arithmetic is "
             "mathematical, allocation succeeds, no aliasing between the buffers; every index is CHECKED by the executor although the C code "
             "disables bounds checks.  The same text is executed by CPython against the compiled extension in the bounded stand-in.",
             "object invariant of an initialised criterion is relative to the sample order given to init (the splitter's later re-sorting of that "
             "order is the recorded known finding of the fast criterion)",
             "lemma schemas of the ghost range sum psum (empty, step, split, congruence / frame, weighted variance) are proved in lemmas/Counting.lean; "
             "the instantiation by pyvc is trusted"],
    not_applicable=["criterion 'mselin' (LinearRegressorCriterion: LAPACK dgelss through raw pointers) and the scikit-learn tree builder (max_depth, "
                    "min_samples_leaf): bounded stand-in on the compiled code against an exact rational oracle",
                    "C memory safety beyond index ranges (lifetime of the buffers, __dealloc__)"],
)
