"""C06 - KMeansL1L2: L1 is self-consistent in Manhattan geometry, L2 is exactly KMeans."""
import z3
from pyvc.api import Contract, contract
from contracts._frames import query_frame
from pyvc.values import Obj, NdArr, z
from pyvc import models
from pyvc.ghost import sum1, sum_congr, app_of
from contracts import C02 as _c02
from contracts._frames import identical

K = "mlinsights/mlmodel/kmeans_l1.py"
K2 = "mlinsights/mlmodel/_kmeans_022.py"


def _self(E, norm, fitted=True):
    k = E.size("k", 1)
    f = dict(n_clusters=k, init="k-means++", n_init=10, max_iter=E.size("max_iter", 1), tol=E.real("tol"), verbose=0,
             random_state=E.int("seed"), copy_x=True, algorithm="lloyd", norm=norm)
    s = E.new_obj(K + "::KMeansL1L2", f)
    if fitted:
        s.fields["cluster_centers_"] = E.nd("centers", (k, E.size("d", 1)))
    return s


def manh(E, X, r, C, c):
    return E.registry.manhF(models.row_of(E, X, r), models.row_of(E, C, c))


def nearest(E, labels, X, C):
    """every row of X carries the index of a Manhattan-nearest row of C"""
    n, k = z(X.shape[0]), z(C.shape[0])
    r, c = z3.Int(models.fresh_name("r")), z3.Int(models.fresh_name("c"))
    return z3.And(z(labels.shape[0]) == n, z3.ForAll([r, c], z3.Implies(
        z3.And(r >= 0, r < n, c >= 0, c < k),
        z3.And(labels.get(r) >= 0, labels.get(r) < k, manh(E, X, r, C, labels.get(r)) <= manh(E, X, r, C, c)))))


@contract(K + "::KMeansL1L2.fit", "C06")
class Fit(Contract):
    variants = [("L2", False), ("L2", True), ("L1", False), ("L1", True)]

    def setup(self, E, v):
        norm, has_w = v
        n = E.size("n", 1)
        return dict(self=_self(E, norm, False), X=E.nd("X", (n, E.size("d", 1))), y=None, sample_weight=E.nd("w", (n,)) if has_w else None, _norm=norm)

    def old(self, E, a):
        return dict(tl=len(E.trace))

    def signals(self, E, a, exc, old):
        if exc == "ValueError":
            return {"L1_refuses_only_fewer_points_than_clusters": z3.And(z3.BoolVal(a._norm == "L1"), z(a.X.shape[0]) < z(a.self.fields["n_clusters"]))}
        return None

    def ensures(self, E, a, res, old):
        out = {"returns_self": z3.BoolVal(res is a.self)}
        if a._norm == "L1":
            s = a.self
            out.update({"fitted_" + k_: v for k_, v in _run_ok(E, s.fields.get("labels_"), s.fields.get("inertia_"), s.fields.get("cluster_centers_"),
                                                            a.X, s.fields["n_clusters"]).items()})
        calls = [t for t in E.trace[old["tl"]:] if t["op"] == "KMeans.fit"]
        if a._norm == "L2":
            out["L2_is_one_KMeans_fit_with_the_callers_arguments"] = z3.BoolVal(
                len(calls) == 1 and calls[0]["obj"] is a.self and calls[0]["X"] is a.X and calls[0]["y"] is None and calls[0]["w"] is a.sample_weight)
        else:
            out["L1_never_calls_the_euclidean_fit"] = z3.BoolVal(not calls)
        return out


@contract(K + "::KMeansL1L2.predict", "C06")
@query_frame("self")
class Predict(Contract):
    variants = ["L2", "L1"]

    def setup(self, E, norm):
        s = _self(E, norm)
        return dict(self=s, X=E.nd("X", (E.size("n", 0), s.fields["cluster_centers_"].shape[1])), _norm=norm)

    def old(self, E, a):
        return dict(tl=len(E.trace), X=a.X.snapshot(), w=a.X.cell.writes)

    def ensures(self, E, a, res, old, not_nearest=False):
        tr = E.trace[old["tl"]:]
        if a._norm == "L2":
            calls = [t for t in tr if t["op"] == "KMeans.predict"]
            return {"L2_is_KMeans_predict_on_the_same_batch": z3.BoolVal(len(calls) == 1 and calls[0]["X"] is a.X and res is calls[0]["result"])}
        ok = isinstance(res, NdArr) and res.ndim == 1
        out = {"vector": z3.BoolVal(ok), "batch_not_written": z3.BoolVal(a.X.cell.writes == old["w"])}
        if ok:
            n, k = z(a.X.shape[0]), z(a.self.fields["n_clusters"])
            C = a.self.fields["cluster_centers_"]
            r, c = z3.Int(models.fresh_name("r")), z3.Int(models.fresh_name("c"))
            cmp = (lambda x, y: x >= y) if not_nearest else (lambda x, y: x <= y)
            out["predict_returns_a_manhattan_nearest_centre"] = z3.And(z(res.shape[0]) == n, z3.ForAll([r, c], z3.Implies(
                z3.And(r >= 0, r < n, c >= 0, c < k),
                z3.And(res.get(r) >= 0, res.get(r) < k, cmp(manh(E, old["X"], r, C, res.get(r)), manh(E, old["X"], r, C, c))))))
        return out

    canaries = {"returns_a_farthest_centre": lambda E, a, res, old: Predict().ensures(E, a, res, old, not_nearest=True).get(
        "predict_returns_a_manhattan_nearest_centre", z3.BoolVal(True))}


@contract(K + "::KMeansL1L2.transform", "C06")
@query_frame("self")
class Transform(Contract):
    variants = ["L2", "L1"]

    def setup(self, E, norm):
        s = _self(E, norm)
        return dict(self=s, X=E.nd("X", (E.size("n", 0), s.fields["cluster_centers_"].shape[1])), _norm=norm)

    def old(self, E, a):
        return dict(tl=len(E.trace), X=a.X.snapshot())

    def ensures(self, E, a, res, old):
        tr = E.trace[old["tl"]:]
        if a._norm == "L2":
            calls = [t for t in tr if t["op"] == "KMeans.transform"]
            return {"L2_is_KMeans_transform_on_the_same_batch": z3.BoolVal(len(calls) == 1 and calls[0]["X"] is a.X and res is calls[0]["result"])}
        ok = isinstance(res, NdArr) and res.ndim == 2
        out = {"matrix": z3.BoolVal(ok)}
        if ok:
            n, k = z(a.X.shape[0]), z(a.self.fields["n_clusters"])
            C = a.self.fields["cluster_centers_"]
            out["transform_is_the_manhattan_distance_to_every_centre"] = z3.And(z(res.shape[0]) == n, z(res.shape[1]) == k, E.forall_range(
                [(0, n), (0, k)], lambda r, c: res.get(r, c) == manh(E, old["X"], r, C, c)))
        return out


@contract(K2 + "::_labels_inertia_precompute_dense", "C06")
class EStep(Contract):
    """E-step of the L1 fit: every point gets the label of a Manhattan-nearest centre, inertia is the weighted sum of those distances"""

    def setup(self, E, v):
        n, k, d = E.size("n", 1), E.size("k", 1), E.size("d", 1)
        return dict(norm="L1", X=E.nd("X", (n, d)), sample_weight=E.nd("w", (n,)), centers=E.nd("centers", (k, d)), distances=E.nd("distances", (n,)))

    def old(self, E, a):
        return dict(X=a.X.snapshot(), C=a.centers.snapshot(), w=a.sample_weight.snapshot(), ns=len(E._sum_apps_for_path()))

    def result(self, E, a, old):
        """at a call site: fresh labels, the distances array overwritten, inertia = the ghost sum of the specification"""
        n = a.X.shape[0]
        labels = NdArr.fresh("labels", (n,), "int")
        E.note_write(a.distances)
        E._havoc_cell(a.distances, "distances")
        spec = NdArr.from_fn("spec", (n,), "real", lambda rr: manh(E, old["X"], rr, old["C"], labels.get(rr)) * old["w"].get(rr))
        inertia = sum1(E, spec)
        old["callsite"] = True
        E.trace.append(dict(op="EStep", X=a.X, centers=a.centers, centers_at_call=old["C"], labels=labels, inertia=inertia))
        return (labels, inertia)

    def ensures(self, E, a, res, old):
        labels, inertia = res
        if old.get("callsite"):
            n, k = z(a.X.shape[0]), z(a.centers.shape[0])
            return {"each_point_carries_the_label_of_a_manhattan_nearest_centre": nearest(E, labels, old["X"], old["C"]),
                    "distances_array_holds_those_distances": E.forall_range([(0, n)], lambda rr: a.distances.get(rr) == manh(E, old["X"], rr, old["C"], labels.get(rr)))}
        n, k = z(a.X.shape[0]), z(a.centers.shape[0])
        r, c = z3.Int(models.fresh_name("r")), z3.Int(models.fresh_name("c"))
        out = {"each_point_carries_the_label_of_a_manhattan_nearest_centre": z3.And(z(labels.shape[0]) == n, z3.ForAll([r, c], z3.Implies(
            z3.And(r >= 0, r < n, c >= 0, c < k),
            z3.And(labels.get(r) >= 0, labels.get(r) < k,
                   manh(E, old["X"], r, old["C"], labels.get(r)) <= manh(E, old["X"], r, old["C"], c)))))}
        out["distances_array_holds_those_distances"] = E.forall_range([(0, n)], lambda rr: a.distances.get(rr) == manh(E, old["X"], rr, old["C"], labels.get(rr)))
        spec = NdArr.from_fn("spec", (a.X.shape[0],), "real", lambda rr: manh(E, old["X"], rr, old["C"], labels.get(rr)) * old["w"].get(rr))
        apps = E._sum_apps_for_path()[old["ns"]:]
        out["one_sum"] = z3.BoolVal(len(apps) == 1)
        if len(apps) == 1:
            S = sum1(E, spec)
            sum_congr(E, apps[0], app_of(E, S))
            out["summand_is_weighted_distance_to_own_centre"] = E.forall_range([(0, n)], lambda rr: z3.Select(apps[0][0], rr) == spec.get(rr))
            out["inertia_is_the_weighted_sum_of_those_distances"] = z(inertia) == S
        return out


# ----------------------------------------------------------------------------------------------------------------------
# the L1 fit: _fit_l1 -> n_init runs of _kmeans_single_lloyd -> E-step / M-step
staleF = z3.Function("labels_of_a_run_that_stopped_with_zero_centre_shift", z3.ArraySort(z3.IntSort(), z3.IntSort()), z3.BoolSort())


def rows_of_the_data(E, centers, X, upto):
    """every centre below `upto` is a row of the data.  (The first coordinate is named on its own - it is one of the coordinates, the data has at
    least one column - so that the solver has ground terms to instantiate the two quantifiers with.)"""
    from pyvc.counting import usable_trigger
    c, r, j = z3.Int(models.fresh_name("c")), z3.Int(models.fresh_name("r")), z3.Int(models.fresh_name("j"))
    inner = z3.And(r >= 0, r < z(X.shape[0]), centers.get(c, 0) == X.get(r, 0),
                   z3.ForAll([j], z3.Implies(z3.And(j >= 0, j < z(X.shape[1])), centers.get(c, j) == X.get(r, j))))
    ex = z3.Exists([r], inner, patterns=[X.get(r, 0)]) if usable_trigger(X.get(r, 0)) else z3.Exists([r], inner)
    body = z3.Implies(z3.And(c >= 0, c < z(upto)), ex)
    return z3.ForAll([c], body, patterns=[centers.get(c, 0)]) if usable_trigger(centers.get(c, 0)) else z3.ForAll([c], body)


@contract(K + "::_k_init", "C06")
class KInit(Contract):
    """PROVED (dense data): the k-means++ seeding returns n_clusters centres of the data's dimension, each of them a row of the data; no index
    leaves its array whatever the random draws are (searchsorted / argmin positions are only known to be in range); the data is not written"""
    variants = ["L1", "L2"]
    loop_reshaped = {0: {"closest_dist_sq": ("nd", 1, "real")}}      # a (1, n) matrix before the loop, a row of n distances after an iteration

    def setup(self, E, v):
        n, d, k = E.size("n", 1), E.size("d", 1), E.size("k", 1)
        return dict(norm=v, X=E.nd("X", (n, d)), n_clusters=k, random_state=E.registry.fns["numpy.random.RandomState"](E, E.int("seed")), n_local_trials=None)

    def requires(self, E, a):
        return {"at_least_one_point_and_one_cluster": z3.And(z(a.X.shape[0]) >= 1, z(a.n_clusters) >= 1)}

    def old(self, E, a):
        return dict(w=a.X.cell.writes)

    @staticmethod
    def _inv(E, L):
        X, cen, cd = L["X"], L["centers"], L["closest_dist_sq"]
        n = X.shape[0]
        out = {"centres_keep_their_shape": z3.And(z(cen.shape[0]) == z(L["n_clusters"]), z(cen.shape[1]) == z(X.shape[1])),
               "centres_chosen_so_far_are_rows_of_the_data": rows_of_the_data(E, cen, X, L.k + 1),
               "at_least_two_local_trials": z(L["n_local_trials"]) >= 2,
               "one_closest_distance_per_point": (z3.And(z(cd.shape[0]) == 1, z(cd.shape[1]) == z(n)) if cd.ndim == 2 else z(cd.shape[0]) == z(n))
               if isinstance(cd, NdArr) else z3.BoolVal(False)}
        return out
    loops = {0: _inv.__func__}

    def result(self, E, a, old):
        return NdArr.fresh("kpp_centers", (a.n_clusters, a.X.shape[1]), "real")

    def ensures(self, E, a, res, old):
        ok = isinstance(res, NdArr) and res.ndim == 2
        out = {"returns_a_matrix": z3.BoolVal(ok)}
        if ok:
            out["n_clusters_centres_of_the_data_dimension"] = z3.And(z(res.shape[0]) == z(a.n_clusters), z(res.shape[1]) == z(a.X.shape[1]))
            out["every_centre_is_a_row_of_the_data"] = rows_of_the_data(E, res, a.X, a.n_clusters)
            out["data_not_written"] = z3.BoolVal(a.X.cell.writes == old["w"])
        return out

    canaries = {"every_centre_is_the_first_row_of_the_data": lambda E, a, res, old: E.forall_range(
        [(0, z(a.n_clusters)), (0, z(a.X.shape[1]))], lambda c, j: res.get(c, j) == a.X.get(0, j))}


@contract(K + "::_init_centroids", "C06")
class InitCentroids(Contract):
    """PROVED: with at least k points (k == n included) the initialisation never fails and gives k centres of the data's dimension -
    k-means++ (its seeding _k_init is proved to return rows of the data), k random rows of the data, or the given array"""
    variants = ["k-means++", "random", "array"]

    def setup(self, E, v):
        n, d, k = E.size("n", 1), E.size("d", 1), E.size("k", 1)
        X = E.nd("X", (n, d))
        init = v if v != "array" else E.nd("init", (E.size("k_init", 0), E.size("d_init", 0)))
        return dict(norm="L1", X=X, k=k, init=init, random_state=E.registry.new_random_state(E) if hasattr(E.registry, "new_random_state") else None,
                    init_size=None, _v=v)

    def requires(self, E, a):
        out = {"at_least_as_many_points_as_clusters": z(a.X.shape[0]) >= z(a.k), "k>=1": z(a.k) >= 1}
        if isinstance(a.init, NdArr):
            out["the_given_array_has_k_rows_of_the_data_dimension"] = z3.And(z(a.init.shape[0]) == z(a.k), z(a.init.shape[1]) == z(a.X.shape[1]))
        return out

    def old(self, E, a):
        return dict(w=a.X.cell.writes)

    def result(self, E, a, old):
        E.trace.append(dict(op="_init_centroids", random_state=a.random_state, init=a.init))
        return NdArr.fresh("centers0", (a.k, a.X.shape[1]), "real")

    def ensures(self, E, a, res, old):
        ok = isinstance(res, NdArr) and res.ndim == 2
        out = {"k_centres_of_the_data_dimension": z3.BoolVal(False) if not ok else z3.And(z(res.shape[0]) == z(a.k), z(res.shape[1]) == z(a.X.shape[1])),
               "data_not_written": z3.BoolVal(a.X.cell.writes == old["w"])}
        kind = a._v if "_v" in a else ("array" if isinstance(a.init, NdArr) else (a.init if isinstance(a.init, str) else None))
        if ok and kind == "array":
            out["the_given_centres"] = E.forall_range([(0, z(a.k)), (0, z(a.X.shape[1]))], lambda c, j: res.get(c, j) == a.init.get(c, j))
        if ok and kind in ("random", "k-means++") and a.get("init_size") is None:
            out["every_centre_is_a_row_of_the_data"] = rows_of_the_data(E, res, a.X, a.k)
        return out


def in_range(E, X, v, j):
    """v lies between two entries of column j of X"""
    r1, r2 = z3.Int("r1!range"), z3.Int("r2!range")          # fixed names: two statements of the same fact are the same formula
    n = z(X.shape[0])
    return z3.Exists([r1, r2], z3.And(r1 >= 0, r1 < n, r2 >= 0, r2 < n, X.get(r1, j) <= v, v <= X.get(r2, j)))


def centres_in_range(E, X, C, upto=None, only=None):
    c, j = z3.Int("c!range"), z3.Int("j!range")
    k = z(C.shape[0]) if upto is None else z(upto)
    guard = z3.And(c >= 0, c < k, j >= 0, j < z(C.shape[1]))
    if only is not None:
        guard = z3.And(guard, only(c))
    return z3.ForAll([c, j], z3.Implies(guard, in_range(E, X, C.get(c, j), j)))


@contract(K + "::_centers_dense", "C06")
class CentersDense(Contract):
    """M-step: PROVED that every coordinate of every returned centre lies within the range of that coordinate in the data (a median
    of the cluster's points, or a data point for a cluster without points) - given numpy.median's bounds (assumed)"""
    max_paths = 20000

    def setup(self, E, v):
        n, d, k = E.size("n", 1), E.size("d", 1), E.size("k", 1)
        return dict(X=E.nd("X", (n, d)), sample_weight=E.nd("w", (n,)), labels=E.nd("labels", (n,), "int"), n_clusters=k,
                    distances=E.nd("distances", (n,)), X_sort_index=E.nd("X_sort_index", (n, d), "int"))

    def requires(self, E, a):
        n, k = z(a.X.shape[0]), z(a.n_clusters)
        i = z3.Int(models.fresh_name("i"))
        return {"labels_are_clusters": z3.ForAll([i], z3.Implies(z3.And(i >= 0, i < n), z3.And(a.labels.get(i) >= 0, a.labels.get(i) < k))),
                "at_least_as_many_points_as_clusters": n >= k,
                "one_label_weight_and_distance_per_point": z3.And(z(a.labels.shape[0]) == n, z(a.sample_weight.shape[0]) == n, z(a.distances.shape[0]) == n)}

    def old(self, E, a):
        return dict(w=a.X.cell.writes)

    @staticmethod
    def _weights(E, L):
        # a cluster without any point seen so far still has weight zero
        lab, wic = L["labels"], L["weight_in_cluster"]
        c, i = z3.Int(models.fresh_name("c")), z3.Int(models.fresh_name("i"))
        k = z(L["n_clusters"])
        return {"clusters_without_points_so_far_have_weight_zero": z3.ForAll([c], z3.Implies(
            z3.And(c >= 0, c < k, z3.ForAll([i], z3.Implies(z3.And(i >= 0, i < z(L.i)), lab.get(i) != c))), wic.get(c) == 0)),
            "centres_untouched": z3.And(z(L["centers"].shape[0]) == k, z(wic.shape[0]) == k)}

    @staticmethod
    def _relocate(E, L):
        # the empty clusters handled so far sit on data points
        X, C, emp = L["X"], L["centers"], L["empty_clusters"]
        s, j = z3.Int(models.fresh_name("s")), z3.Int(models.fresh_name("j"))
        return {"relocated_centres_are_data_points": z3.ForAll([s, j], z3.Implies(
            z3.And(s >= 0, s < z(L.k), j >= 0, j < z(C.shape[1])), in_range(E, X, C.get(emp.get(s), j), j)))}

    @staticmethod
    def _medians(E, L):
        X, C = L["X"], L["centers"]
        try:
            emp = L["empty_clusters"]
            cond, fm, rank, unrank = emp.cell.where_of
            is_empty = lambda c: fm.get(c)
        except (KeyError, AttributeError):
            return {"empty_clusters_known": z3.BoolVal(False)}
        return {"centres_done_so_far_are_in_range": centres_in_range(E, X, C, upto=L.i),
                "relocated_centres_still_in_range": centres_in_range(E, X, C, only=is_empty)}
    loops = {0: _weights.__func__, 1: _relocate.__func__, 2: _medians.__func__}

    def result(self, E, a, old):
        return NdArr.fresh("centers", (a.n_clusters, a.X.shape[1]), "real")

    def signals(self, E, a, exc, old):
        if exc == "NotImplementedError":
            return {"only_non_uniform_weights_are_refused": z3.BoolVal(True)}
        return None

    def ensures(self, E, a, res, old):
        ok = isinstance(res, NdArr) and res.ndim == 2
        out = {"one_centre_per_cluster_of_the_data_dimension": z3.BoolVal(ok) if not ok else z3.And(
            z(res.shape[0]) == z(a.n_clusters), z(res.shape[1]) == z(a.X.shape[1]))}
        if ok:
            out["every_centre_lies_within_the_coordinate_wise_range_of_the_data"] = centres_in_range(E, a.X, res)
            out["data_not_written"] = z3.BoolVal(a.X.cell.writes == old["w"])
        return out


@contract(K + "::_tolerance", "C06")
class Tolerance(Contract):
    """PROVED (norm L1): a non-negative number - the sum over the columns of the mean absolute value - for any data with at least one row;
    the data is not written"""
    def setup(self, E, v):
        return dict(norm="L1", X=E.nd("X", (E.size("n", 1), E.size("d", 1))), tol=E.real("tol"))

    def requires(self, E, a):
        return {"at_least_one_row": z(a.X.shape[0]) >= 1}

    def old(self, E, a):
        return dict(w=a.X.cell.writes)

    def result(self, E, a, old):
        t = E.real("tol_")
        E.assume(t >= 0)
        return t

    def ensures(self, E, a, res, old):
        from pyvc.values import is_num_like
        ok = is_num_like(res) and not isinstance(res, bool)
        return {"a_non_negative_number": z3.BoolVal(False) if not ok else z(res) >= 0, "data_not_written": z3.BoolVal(a.X.cell.writes == old["w"])}


def _run_ok(E, labels, inertia, centers, X, k):
    """what one run of _kmeans_single_lloyd guarantees about what it returns (P): shapes, and - unless the run stopped with a
    centre shift of exactly zero (ghost flag: the labels then rely on the convergence argument, not proved) - the labels are
    Manhattan-nearest to the RETURNED centres"""
    ok = isinstance(labels, NdArr) and isinstance(centers, NdArr) and centers.ndim == 2
    if not ok:
        return {"labels_and_centres_are_arrays": z3.BoolVal(False)}
    return {"one_label_per_point_and_k_centres_of_the_data_dimension": z3.And(
        z(labels.shape[0]) == z(X.shape[0]), z(centers.shape[0]) == z(k), z(centers.shape[1]) == z(X.shape[1])),
        "labels_are_nearest_to_the_returned_centres_unless_the_last_shift_was_zero": z3.Or(staleF(labels.cell.term), nearest(E, labels, X, centers)),
        "every_centre_lies_within_the_coordinate_wise_range_of_the_data": centres_in_range(E, X, centers)}


@contract(K + "::_kmeans_single_lloyd", "C06")
class SingleRun(Contract):
    """one Lloyd run: at most max_iter iterations; if the centres still moved in the last iteration the E-step is run again on the
    returned centres, so that labels and inertia match them"""
    variants = ["k-means++", "array"]
    loop_kinds = {0: {"best_labels": ("nd", 1, "int"), "best_centers": ("nd", 2), "best_inertia": "real", "labels": ("nd", 1, "int"),
                      "inertia": "real", "centers_old": ("nd", 2), "center_shift_total": "real"}}
    max_paths = 20000

    def setup(self, E, v):
        n, d, k = E.size("n", 1), E.size("d", 1), E.size("k", 1)
        init = "k-means++" if v == "k-means++" else E.nd("init", (k, d))
        return dict(norm="L1", X=E.nd("X", (n, d)), sample_weight=E.nd("w", (n,)), n_clusters=k, max_iter=E.size("max_iter", 1),
                    init=init, verbose=False, random_state=E.int("seed"), tol=E.real("tol"))

    def requires(self, E, a):
        return {"at_least_one_iteration": z(a.max_iter) >= 1, "n>=k": z(a.X.shape[0]) >= z(a.n_clusters)}

    def old(self, E, a):
        return dict(tl=len(E.trace), w=a.X.cell.writes)

    @staticmethod
    def _inv(E, L):
        X, k = L["X"], L["n_clusters"]
        out = {"centres_keep_their_shape": z3.And(z(L["centers"].shape[0]) == z(k), z(L["centers"].shape[1]) == z(X.shape[1]))}
        bi = L["best_inertia"]
        out["a_best_run_is_recorded_after_the_first_iteration"] = z3.BoolVal((bi is None) == (L.i is not None and z3.is_true(z3.simplify(z(L.i) == 0)))) \
            if bi is None else z3.BoolVal(True)
        if bi is not None:
            bl, bc = L["best_labels"], L["best_centers"]
            ok = isinstance(bl, NdArr) and isinstance(bc, NdArr)
            out["best_labels_and_centres_have_the_right_shapes"] = z3.BoolVal(False) if not ok else z3.And(
                z(bl.shape[0]) == z(X.shape[0]), z(bc.shape[0]) == z(k), z(bc.shape[1]) == z(X.shape[1]))
            if ok:
                out["best_centres_are_within_the_range_of_the_data"] = centres_in_range(E, X, bc)
        return out
    loops = {0: _inv.__func__}

    def result(self, E, a, old):
        n, d = a.X.shape[0], a.X.shape[1]
        labels = NdArr.fresh("run_labels", (n,), "int")
        it = E.int("n_iter")
        old["callsite"] = True
        E.trace.append(dict(op="single_run", X=a.X, sample_weight=a.sample_weight, n_clusters=a.n_clusters, max_iter=a.max_iter, init=a.init,
                            random_state=a.random_state, tol=a.tol, norm=a.norm, labels=labels))
        return (labels, E.real("run_inertia"), NdArr.fresh("run_centers", (a.n_clusters, d), "real"), it)

    def ensures(self, E, a, res, old, strict=False):
        ok = isinstance(res, tuple) and len(res) == 4
        out = {"four_results": z3.BoolVal(ok)}
        if not ok:
            return out
        labels, inertia, centers, n_iter = res
        loc = E.ps.get("top_locals") if type(E.top) is type(self) and not old.get("callsite") else None
        if loc is not None and "center_shift_total" in loc and isinstance(labels, NdArr):
            # ghost code of the verified function: `if not (center_shift_total > 0): mark(best_labels)` - the flag is only ever
            # assumed positively (a run whose labels are marked promises nothing about them)
            E.assume(z3.Implies(z3.Not(z(loc["center_shift_total"]) > 0), staleF(labels.cell.term)))
        out.update(_run_ok(E, labels, inertia, centers, a.X, a.n_clusters))
        out["between_one_and_max_iter_iterations"] = z3.And(z(n_iter) >= 1, (z(n_iter) < z(a.max_iter)) if strict else (z(n_iter) <= z(a.max_iter)))
        out["data_not_written"] = z3.BoolVal(a.X.cell.writes == old["w"])
        if loc is not None and "center_shift_total" in loc:
            # white-box clause on the verified function itself: the ghost flag is exactly "the last centre shift was not positive"
            shift = loc["center_shift_total"]
            esteps = [t for t in E.trace[old["tl"]:] if t["op"] == "EStep"]
            out["if_the_centres_still_moved_the_last_e_step_is_on_the_returned_centres"] = z3.Implies(
                z(shift) > 0, z3.BoolVal(bool(esteps) and esteps[-1]["labels"] is labels and esteps[-1]["centers"] is centers and esteps[-1]["inertia"] is inertia))
        return out

    canaries = {"always_stops_before_max_iter": lambda E, a, res, old: SingleRun().ensures(E, a, res, old, strict=True)["between_one_and_max_iter_iterations"]}


def _fit_l1_self(E, init_kind):
    k = E.size("k", 1)
    d = E.size("d", 1)
    f = dict(n_clusters=k, init="k-means++" if init_kind == "k-means++" else E.nd("init", (k, d)), n_init=E.size("n_init", 1),
             max_iter=E.size("max_iter", 1), tol=E.real("tol"), verbose=0, random_state=E.int("seed"), copy_x=True, algorithm="lloyd", norm="L1")
    return E.new_obj(K + "::KMeansL1L2", f), d


FIT_L1_KINDS = {0: {"best_labels": ("nd", 1, "int"), "best_centers": ("nd", 2), "best_inertia": "real", "best_n_iter": "int",
                    "labels": ("nd", 1, "int"), "centers": ("nd", 2), "inertia": "real", "n_iter_": "int"}}


def fit_l1_invariant(E, L):
    """loop over the seeds of _fit_l1: the best run so far is one of the runs (so it has what every run guarantees), and every run
    is given the caller's data, weights, number of clusters, iteration budget, initialisation, norm and its own drawn seed"""
    s, X = L["self"], L["X"]
    out = {}
    bi = L["best_inertia"]
    if bi is None:
        out["nothing_recorded_only_before_the_first_run"] = z(L.k) == 0
    else:
        out.update({"best_run_" + k_: v for k_, v in _run_ok(E, L["best_labels"], bi, L["best_centers"], X, s.fields["n_clusters"]).items()})
        out["best_number_of_iterations_within_budget"] = z3.And(z(L["best_n_iter"]) >= 1, z(L["best_n_iter"]) <= z(s.fields["max_iter"]))
    runs = [t for t in E.trace if t["op"] == "single_run"]
    out["every_run_gets_the_callers_data_and_parameters_and_its_own_seed"] = z3.BoolVal(all(
        t["X"] is X and t["sample_weight"] is L["sample_weight"] and t["n_clusters"] is s.fields["n_clusters"] and t["max_iter"] is s.fields["max_iter"]
        and t["norm"] == "L1" and (t["init"] is L["init"]) for t in runs))
    return out


@contract(K + "::KMeansL1L2._fit_l1", "C06")
class FitL1V(Contract):
    """the L1 fit keeps the best of n_init runs: labels_, cluster_centers_, inertia_, n_iter_ come from that one run and have what a
    run guarantees; no hyper-parameter is written"""
    variants = [("k-means++", False), ("k-means++", True), ("array", False)]
    loop_kinds = FIT_L1_KINDS
    loops = {0: fit_l1_invariant}
    max_paths = 20000
    PARAMS = ["n_clusters", "init", "n_init", "max_iter", "tol", "verbose", "random_state", "copy_x", "algorithm", "norm"]

    def setup(self, E, v):
        init_kind, has_w = v
        s, d = _fit_l1_self(E, init_kind)
        n = E.size("n", 1)
        return dict(self=s, X=E.nd("X", (n, d)), y=None, sample_weight=E.nd("w", (n,)) if has_w else None)

    def old(self, E, a):
        return dict(params={p: a.self.fields[p] for p in self.PARAMS}, tl=len(E.trace), w=a.X.cell.writes)

    def signals(self, E, a, exc, old):
        if exc == "ValueError":
            return {"refused_only_with_fewer_points_than_clusters": z(a.X.shape[0]) < z(a.self.fields["n_clusters"]),
                    **{"hyper_parameter_%s_unchanged" % p: z3.BoolVal(p in a.self.fields and bool(identical(a.self.fields[p], v))) for p, v in old["params"].items()}}
        return None

    def result(self, E, a, old):
        from pyvc.engine import Raised
        s = a.self
        n, k, d = a.X.shape[0], s.fields["n_clusters"], a.X.shape[1]
        if E.branch(z(n) < z(k)):
            raise Raised("ValueError", ("n_samples should be >= n_clusters",), None, "raise")
        s.fields["labels_"] = NdArr.fresh("labels_", (n,), "int")
        s.fields["cluster_centers_"] = NdArr.fresh("cluster_centers_", (k, d), "real")
        s.fields["inertia_"] = E.real("inertia_")
        s.fields["n_iter_"] = E.int("n_iter_")
        return s

    def ensures(self, E, a, res, old):
        s = a.self
        out = {"returns_self": z3.BoolVal(res is s)}
        for p, v in old["params"].items():
            out["hyper_parameter_%s_unchanged" % p] = z3.BoolVal(p in s.fields and bool(identical(s.fields[p], v)))
        lab, cen = s.fields.get("labels_"), s.fields.get("cluster_centers_")
        out.update({"fitted_" + k_: v for k_, v in _run_ok(E, lab, s.fields.get("inertia_"), cen, a.X, s.fields["n_clusters"]).items()})
        out["n_iter_within_budget"] = z3.And(z(s.fields["n_iter_"]) >= 1, z(s.fields["n_iter_"]) <= z(s.fields["max_iter"])) if "n_iter_" in s.fields else z3.BoolVal(False)
        out["data_not_written"] = z3.BoolVal(a.X.cell.writes == old["w"])
        seeded = [t for t in E.trace[old["tl"]:] if t["op"] == "RandomState"]
        out["the_generator_of_the_seeds_is_seeded_with_random_state"] = z3.BoolVal(len(seeded) == 1 and seeded[0]["seed"] is s.fields["random_state"])
        return out


META = dict(
    level="proof", lean_files=["lemmas/Sums.lean"], assumptions=["A1", "A2", "A6", "A7", "A9"],
    trusted=["pairwise_distances_argmin_min(metric='manhattan') returns an index of a Manhattan-nearest row and that distance; manhattan_distances is the "
             "matrix of those distances; KMeans.fit/predict/transform are scikit-learn's (L2 equality is equality by delegation)",
             "no in-repo step of the L1 fit is assumed: _k_init (k-means++ seeding, dense data: k centres that are rows of the data, every index in range), "
             "_init_centroids (never fails for n >= k) and _tolerance (L1) are PROVED; ASSUMED models used by _k_init: RandomState.randint / random_sample "
             "ranges, numpy.searchsorted returns positions in [0, len], numpy.argmin a position of the vector, stable_cumsum a vector of the same length, "
             "numpy.clip / numpy.minimum(out=) element-wise; "
             "check_random_state / check_array / _check_sample_weight / numpy.isclose / numpy.where / argsort models; numpy.median lies, per column, "
             "between two entries of that column",
             "ghost flag of a run (labels_of_a_run_that_stopped_with_zero_centre_shift): only ever assumed positively - a run that stops with a centre "
             "shift of exactly zero promises nothing about its labels here (they rely on the convergence argument of Lloyd's algorithm, not proved)"],
    not_applicable=["fit succeeds on >= k distinct points (uniform weights only: non-uniform weights raise NotImplementedError in the M-step) - bounded stand-in "
                    "on all small grids.  Centres within the coordinate-wise range of the data IS proved: _centers_dense (three real loops: weights per "
                    "cluster, relocation of empty clusters onto data points, medians) and carried by contracts through _kmeans_single_lloyd, _fit_l1 and fit",
                    "labels_/inertia_ consistent with the returned centres when the last centre shift is exactly zero (convergence argument); "
                    "convergence / optimality"],
)
