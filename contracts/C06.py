"""C06 - KMeansL1L2: L1 is self-consistent in Manhattan geometry, L2 is exactly KMeans."""
import z3
from pyvc.api import Contract, contract
from pyvc.values import Obj, NdArr, z
from pyvc import models
from pyvc.ghost import sum1, sum_congr, app_of
from contracts import C02 as _c02

K = "mlinsights/mlmodel/kmeans_l1.py"
K2 = "mlinsights/mlmodel/_kmeans_022.py"
contract(_c02.FitL1.key, "C06", assumed=True)(type("FitL1", (_c02.FitL1,), {}))


def _self(E, norm, fitted=True):
    k = E.size("k", 1)
    f = dict(n_clusters=k, init="k-means++", n_init=10, max_iter=E.size("max_iter", 1), tol=E.real("tol"), verbose=0,
             random_state=E.int("seed"), copy_x=True, algorithm="lloyd", norm=norm)
    s = E.new_obj(K + "::KMeansL1L2", f)
    if fitted:
        s.fields["cluster_centers_"] = E.nd("centers", (k, E.size("d", 1)))
    return s


def manh(E, X, r, C, c):
    return E.registry.manhF(models.row_of(E, X, r), models.row_of(E, C, c))


@contract(K + "::KMeansL1L2.fit", "C06")
class Fit(Contract):
    variants = [("L2", False), ("L2", True), ("L1", False), ("L1", True)]

    def setup(self, E, v):
        norm, has_w = v
        n = E.size("n", 1)
        return dict(self=_self(E, norm, False), X=E.nd("X", (n, E.size("d", 1))), y=None, sample_weight=E.nd("w", (n,)) if has_w else None, _norm=norm)

    def old(self, E, a):
        return dict(tl=len(E.trace))

    def ensures(self, E, a, res, old):
        out = {"returns_self": z3.BoolVal(res is a.self)}
        calls = [t for t in E.trace[old["tl"]:] if t["op"] == "KMeans.fit"]
        if a._norm == "L2":
            out["L2_is_one_KMeans_fit_with_the_callers_arguments"] = z3.BoolVal(
                len(calls) == 1 and calls[0]["obj"] is a.self and calls[0]["X"] is a.X and calls[0]["y"] is None and calls[0]["w"] is a.sample_weight)
        else:
            out["L1_never_calls_the_euclidean_fit"] = z3.BoolVal(not calls)
        return out


@contract(K + "::KMeansL1L2.predict", "C06")
class Predict(Contract):
    variants = ["L2", "L1"]

    def setup(self, E, norm):
        s = _self(E, norm)
        return dict(self=s, X=E.nd("X", (E.size("n", 0), s.fields["cluster_centers_"].shape[1])), _norm=norm)

    def old(self, E, a):
        return dict(tl=len(E.trace), X=a.X.snapshot(), w=a.X.cell.writes)

    def ensures(self, E, a, res, old, not_nearest=False):
        tr = E.trace[old["tl"]:]
        if a._norm == "L2":
            calls = [t for t in tr if t["op"] == "KMeans.predict"]
            return {"L2_is_KMeans_predict_on_the_same_batch": z3.BoolVal(len(calls) == 1 and calls[0]["X"] is a.X and res is calls[0]["result"])}
        ok = isinstance(res, NdArr) and res.ndim == 1
        out = {"vector": z3.BoolVal(ok), "batch_not_written": z3.BoolVal(a.X.cell.writes == old["w"])}
        if ok:
            n, k = z(a.X.shape[0]), z(a.self.fields["n_clusters"])
            C = a.self.fields["cluster_centers_"]
            r, c = z3.Int(models.fresh_name("r")), z3.Int(models.fresh_name("c"))
            cmp = (lambda x, y: x >= y) if not_nearest else (lambda x, y: x <= y)
            out["predict_returns_a_manhattan_nearest_centre"] = z3.And(z(res.shape[0]) == n, z3.ForAll([r, c], z3.Implies(
                z3.And(r >= 0, r < n, c >= 0, c < k),
                z3.And(res.get(r) >= 0, res.get(r) < k, cmp(manh(E, old["X"], r, C, res.get(r)), manh(E, old["X"], r, C, c))))))
        return out

    canaries = {"returns_a_farthest_centre": lambda E, a, res, old: Predict().ensures(E, a, res, old, not_nearest=True).get(
        "predict_returns_a_manhattan_nearest_centre", z3.BoolVal(True))}


@contract(K + "::KMeansL1L2.transform", "C06")
class Transform(Contract):
    variants = ["L2", "L1"]

    def setup(self, E, norm):
        s = _self(E, norm)
        return dict(self=s, X=E.nd("X", (E.size("n", 0), s.fields["cluster_centers_"].shape[1])), _norm=norm)

    def old(self, E, a):
        return dict(tl=len(E.trace), X=a.X.snapshot())

    def ensures(self, E, a, res, old):
        tr = E.trace[old["tl"]:]
        if a._norm == "L2":
            calls = [t for t in tr if t["op"] == "KMeans.transform"]
            return {"L2_is_KMeans_transform_on_the_same_batch": z3.BoolVal(len(calls) == 1 and calls[0]["X"] is a.X and res is calls[0]["result"])}
        ok = isinstance(res, NdArr) and res.ndim == 2
        out = {"matrix": z3.BoolVal(ok)}
        if ok:
            n, k = z(a.X.shape[0]), z(a.self.fields["n_clusters"])
            C = a.self.fields["cluster_centers_"]
            out["transform_is_the_manhattan_distance_to_every_centre"] = z3.And(z(res.shape[0]) == n, z(res.shape[1]) == k, E.forall_range(
                [(0, n), (0, k)], lambda r, c: res.get(r, c) == manh(E, old["X"], r, C, c)))
        return out


@contract(K2 + "::_labels_inertia_precompute_dense", "C06")
class EStep(Contract):
    """E-step of the L1 fit: every point gets the label of a Manhattan-nearest centre, inertia is the weighted sum of those distances"""

    def setup(self, E, v):
        n, k, d = E.size("n", 1), E.size("k", 1), E.size("d", 1)
        return dict(norm="L1", X=E.nd("X", (n, d)), sample_weight=E.nd("w", (n,)), centers=E.nd("centers", (k, d)), distances=E.nd("distances", (n,)))

    def old(self, E, a):
        return dict(X=a.X.snapshot(), C=a.centers.snapshot(), w=a.sample_weight.snapshot(), ns=len(E._sum_apps_for_path()))

    def ensures(self, E, a, res, old):
        labels, inertia = res
        n, k = z(a.X.shape[0]), z(a.centers.shape[0])
        r, c = z3.Int(models.fresh_name("r")), z3.Int(models.fresh_name("c"))
        out = {"each_point_carries_the_label_of_a_manhattan_nearest_centre": z3.And(z(labels.shape[0]) == n, z3.ForAll([r, c], z3.Implies(
            z3.And(r >= 0, r < n, c >= 0, c < k),
            z3.And(labels.get(r) >= 0, labels.get(r) < k,
                   manh(E, old["X"], r, old["C"], labels.get(r)) <= manh(E, old["X"], r, old["C"], c)))))}
        out["distances_array_holds_those_distances"] = E.forall_range([(0, n)], lambda rr: a.distances.get(rr) == manh(E, old["X"], rr, old["C"], labels.get(rr)))
        spec = NdArr.from_fn("spec", (a.X.shape[0],), "real", lambda rr: manh(E, old["X"], rr, old["C"], labels.get(rr)) * old["w"].get(rr))
        apps = E._sum_apps_for_path()[old["ns"]:]
        out["one_sum"] = z3.BoolVal(len(apps) == 1)
        if len(apps) == 1:
            S = sum1(E, spec)
            sum_congr(E, apps[0], app_of(E, S))
            out["summand_is_weighted_distance_to_own_centre"] = E.forall_range([(0, n)], lambda rr: z3.Select(apps[0][0], rr) == spec.get(rr))
            out["inertia_is_the_weighted_sum_of_those_distances"] = z(inertia) == S
        return out


META = dict(
    level="proof", assumptions=["A1", "A2", "A6", "A7", "A9"],
    trusted=["pairwise_distances_argmin_min(metric='manhattan') returns an index of a Manhattan-nearest row and that distance; manhattan_distances is the "
             "matrix of those distances; KMeans.fit/predict/transform are scikit-learn's (L2 equality is equality by delegation)",
             "_fit_l1 (k-means++ initialisation, Lloyd iterations, best run selection) is ASSUMED here"],
    not_applicable=["L1 fit succeeds on any finite data with >= k distinct points, centres within the data range, labels_/inertia_ consistent with the "
                    "returned centres: numerical iteration (_fit_l1, _kmeans_single_lloyd, _centers_dense medians) - bounded stand-in on all small grids",
                    "convergence / optimality"],
)
